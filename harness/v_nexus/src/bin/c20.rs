//! C20 - Belief is projected: silence is not rejection, repetition is not support.
//!
//! Monitors (DESIGN.md C20), all through the executor (KML writes, KQL `BELIEF` / `BELIEF SLOT`):
//!  * reference model: eligibility (lifecycle, validity window, admissible modes of the policy the
//!    answer names) -> connected components "same actor or shared evidence id" per side (support /
//!    opposition, rival-value support of a functional predicate = opposition) -> score
//!    1 - prod(1 - max confidence per component) -> status from the policy thresholds;
//!  * permutation monitor: the same multiset recorded in several orders gives the same answer;
//!  * algebraic laws on answers: no eligible assertion => insufficient; rejected => opposition
//!    group; a repeat / shared-evidence addition never adds a group; scores in [0,1]; policy id
//!    travels with the answer and changes when a threshold is overridden;
//!  * bounded-exhaustive tier: all multisets (up to renaming of actors / evidence ids) of small
//!    size over actors x evidence subsets x stances x confidences x {active, retracted}, every
//!    distinct recording order;
//!  * section `asof`: several subjects in one small Space, every assertion and lifecycle step its
//!    own commit; the projection is read at past coordinates (`AS OF SEQ` / `TX` / `TIME`, request
//!    bound to a snapshot token) and judged against the reference built from what had been
//!    recorded about THAT proposition up to the coordinate (a never-asserted proposition is
//!    `insufficient` at every coordinate, whatever was claimed about others);
//!  * section `ingest`: the same multiset enters a Space through every ingestion path the engine
//!    has (KML, Capsule import, isolated import + release; 1.x migration in `migrate`) with
//!    confidences at and beyond the edges of the documented scale; a path may refuse (counted),
//!    what it lets in must still obey the laws: scores in [0,1], never lower when confidences
//!    rise, same assertions => same belief whatever the path.

use anda_cognitive_nexus::{CognitiveNexus, nexus::DEFAULT_SPACE};
use anda_kip::{Executor, Request, TopLevelStatus};
use serde_json::{Map, Value, json};
use std::cell::RefCell;
use std::collections::{BTreeMap, BTreeSet};
use v_nexus::nx1920::*;
use vcore::{Rng, Run, Stats};

// ---------------------------------------------------------------------------------------------
// the generated world

const N_ACT: usize = 4; // actors 0..2 are used by generated multisets, 3 is the "new voice" of the add laws
const N_EV: usize = 4; // evidence ids 0..2 generated, 3 reserved for the add laws
const N_VAL: usize = 3; // value 0 = the proposition under test, 1..2 = rival values

#[derive(Clone, Copy, PartialEq, Eq, Hash, Debug, PartialOrd, Ord)]
enum Stance {
    Support,
    Reject,
    Uncertain,
}
impl Stance {
    fn s(self) -> &'static str {
        match self {
            Stance::Support => "support",
            Stance::Reject => "reject",
            Stance::Uncertain => "uncertain",
        }
    }
}

const MODES: [&str; 6] = ["observed", "stated", "inferred", "imported", "predicted", "hypothetical"];

#[derive(Clone, Copy, PartialEq, Eq, Hash, Debug, PartialOrd, Ord)]
enum Life {
    Active,
    Retracted,
    /// superseded by the assertion with this index of the multiset (same proposition)
    Superseded(usize),
    /// record archived (`ARCHIVE :a`): out of ordinary recall
    Archived,
}

#[derive(Clone, Debug, PartialEq)]
struct Asr {
    actor: Option<u8>,
    ev: u8,
    tgt: u8,
    stance: Stance,
    conf: Option<f64>,
    mode: usize,
    /// validity window in grid steps (even numbers), None = open
    from: Option<u8>,
    until: Option<u8>,
    life: Life,
    /// `ASSERT` sugar instead of `CREATE ASSERTION`
    sugar: bool,
    /// evidence ids cited with role "challenge" (long form only)
    challenge: u8,
}

impl Asr {
    fn simple(actor: u8, ev: u8, stance: Stance, conf: f64, life: Life) -> Asr {
        Asr {
            actor: Some(actor),
            ev,
            tgt: 0,
            stance,
            conf: Some(conf),
            mode: 0,
            from: None,
            until: None,
            life,
            sugar: false,
            challenge: 0,
        }
    }
    /// content descriptor (what an assertion *is*, independent of ids and order)
    fn desc(&self) -> String {
        format!(
            "a{:?}/e{:03b}/t{}/{}/c{:?}/{}/w{:?}-{:?}/{:?}",
            self.actor,
            self.ev,
            self.tgt,
            self.stance.s(),
            self.conf,
            MODES[self.mode],
            self.from,
            self.until,
            match self.life {
                Life::Superseded(_) => "Superseded".to_string(),
                l => format!("{l:?}"),
            }
        )
    }
}

/// Time grid: step k is 2001-03-10T(03+k/2):(00|30):00Z, k in 0..=16. Windows use even steps,
/// evaluation times odd steps (never on a boundary) unless a boundary case is wanted.
fn grid_time(step: u8, spelling: u8) -> String {
    let minutes = 3 * 60 + (step as i32) * 30;
    let (off_min, suffix) = match spelling % 4 {
        0 => (0, "Z".to_string()),
        1 => (8 * 60, "+08:00".to_string()),
        2 => (-150, "-02:30".to_string()),
        _ => (0, "+00:00".to_string()),
    };
    let local = minutes + off_min;
    let frac = if spelling % 8 >= 4 { ".000" } else { "" };
    format!("2001-03-10T{:02}:{:02}:00{}{}", local / 60, local % 60, frac, suffix)
}
fn grid_canonical(step: u8) -> String {
    let minutes = 3 * 60 + (step as i32) * 30;
    format!("2001-03-10T{:02}:{:02}:00.000Z", minutes / 60, minutes % 60)
}

#[derive(Clone, Debug, Default)]
struct PolicyReq {
    name: Option<&'static str>,
    accept: Option<f64>,
    material: Option<f64>,
    modes: Option<Vec<usize>>,
}
impl PolicyReq {
    fn overridden(&self) -> bool {
        self.accept.is_some() || self.material.is_some() || self.modes.is_some()
    }
    fn clause(&self) -> String {
        let mut parts = vec![];
        if let Some(n) = self.name {
            parts.push(format!("policy: \"{n}\""));
        }
        if let Some(a) = self.accept {
            parts.push(format!("accept: {a}"));
        }
        if let Some(m) = self.material {
            parts.push(format!("material: {m}"));
        }
        if let Some(ms) = &self.modes {
            let l: Vec<String> = ms.iter().map(|m| format!("\"{}\"", MODES[*m])).collect();
            parts.push(format!("modes: [{}]", l.join(", ")));
        }
        if parts.is_empty() { String::new() } else { format!(" WITH EPISTEMIC {{{}}}", parts.join(", ")) }
    }
}

#[derive(Clone, Debug)]
struct Query {
    /// grid step of FOR TIME, None = no FOR TIME clause (evaluated "now", after the whole grid)
    at: Option<u8>,
    spelling: u8,
    policy: PolicyReq,
    /// 0 = BELIEF (id: :p), 1 = ?p PROPOSITION (...) + BELIEF (?p), 2 = BELIEF (s, "pred", v), 3 = BELIEF SLOT
    form: u8,
}

/// The published description of a named policy (`DESCRIBE EPISTEMIC POLICY`).
#[derive(Clone, Debug)]
struct PolicyDesc {
    id: String,
    version: Value,
    modes: Vec<usize>,
    accept: f64,
    material: f64,
    unstated: f64,
    expand: bool,
}

// ---------------------------------------------------------------------------------------------
// reference model (written from the specification's description of the projection)

#[derive(Debug, Default, Clone)]
struct RefAns {
    sup: BTreeSet<usize>,
    opp: BTreeSet<usize>,
    unc: BTreeSet<usize>,
    /// ineligible assertions about the target: must be listed; value = applicable reason classes
    excl_must: BTreeMap<usize, BTreeSet<&'static str>>,
    /// ineligible assertions about rivals: may be listed
    excl_may: BTreeMap<usize, BTreeSet<&'static str>>,
    sup_groups: usize,
    opp_groups: usize,
    sup_score: f64,
    opp_score: f64,
    statuses: Vec<&'static str>,
    /// a score is within 1e-9 of a threshold: status not compared
    near_tie: bool,
    /// evaluation time equals a window boundary of some assertion: spec silent, not compared
    boundary: bool,
    /// some component has >= 3 members of which one joined two otherwise separate groups
    bridge: bool,
    rival_opposition: bool,
    /// grouping depends on how assertions without an actor are treated
    nameless_ambiguous: bool,
}

struct Uf(Vec<usize>);
impl Uf {
    fn find(&mut self, x: usize) -> usize {
        let mut r = x;
        while self.0[r] != r {
            r = self.0[r];
        }
        self.0[x] = r;
        r
    }
    fn union(&mut self, a: usize, b: usize) {
        let (a, b) = (self.find(a), self.find(b));
        if a != b {
            self.0[a] = b;
        }
    }
}

/// `nameless_one`: two assertions without `asserted_by` count as the same (nameless) actor.
fn adjacent(a: &Asr, b: &Asr, nameless_one: bool) -> bool {
    ((a.actor.is_some() || nameless_one) && a.actor == b.actor) || (a.ev & b.ev) != 0
}

/// Connected components of `members` under "same actor or shared evidence"; returns
/// (number of groups, score, bridge seen).
fn side(asrs: &[Asr], members: &BTreeSet<usize>, unstated: f64, nameless_one: bool) -> (usize, f64, bool) {
    let idx: Vec<usize> = members.iter().copied().collect();
    let mut uf = Uf((0..idx.len()).collect());
    for i in 0..idx.len() {
        for j in 0..i {
            if adjacent(&asrs[idx[i]], &asrs[idx[j]], nameless_one) {
                uf.union(i, j);
            }
        }
    }
    let mut maxes: BTreeMap<usize, f64> = BTreeMap::new();
    let mut sizes: BTreeMap<usize, Vec<usize>> = BTreeMap::new();
    for i in 0..idx.len() {
        let r = uf.find(i);
        let c = asrs[idx[i]].conf.unwrap_or(unstated).clamp(0.0, 1.0);
        let e = maxes.entry(r).or_insert(0.0);
        if c > *e {
            *e = c;
        }
        sizes.entry(r).or_default().push(i);
    }
    let mut prod = 1.0;
    for m in maxes.values() {
        prod *= 1.0 - m;
    }
    // bridge: a member whose removal splits its component (an articulation point joining two
    // members that are not adjacent to each other)
    let mut bridge = false;
    for comp in sizes.values() {
        if comp.len() < 3 {
            continue;
        }
        for &x in comp {
            for &y in comp {
                for &z in comp {
                    if x != y && y != z && x != z
                        && adjacent(&asrs[idx[x]], &asrs[idx[y]], nameless_one)
                        && adjacent(&asrs[idx[x]], &asrs[idx[z]], nameless_one)
                        && !adjacent(&asrs[idx[y]], &asrs[idx[z]], nameless_one)
                    {
                        bridge = true;
                    }
                }
            }
        }
    }
    (maxes.len(), 1.0 - prod, bridge)
}

/// `at`: Some(step) or None = "now" (after the grid).
fn reference(asrs: &[Asr], functional: bool, target: u8, at: Option<u8>, pol: &PolicyDesc) -> RefAns {
    let mut r = RefAns::default();
    for (i, a) in asrs.iter().enumerate() {
        let mut why: BTreeSet<&'static str> = BTreeSet::new();
        match a.life {
            Life::Active => {}
            Life::Retracted => {
                why.insert("retracted");
            }
            Life::Superseded(_) => {
                why.insert("superseded");
            }
            Life::Archived => {
                why.insert("visibility");
            }
        }
        let t = at.map(|s| s as i32).unwrap_or(i32::MAX);
        if let Some(f) = a.from {
            if (f as i32) > t {
                why.insert("temporal");
            }
            if f as i32 == t {
                r.boundary = true;
            }
        }
        if let Some(u) = a.until {
            if (u as i32) < t {
                why.insert("temporal");
            }
            if u as i32 == t {
                r.boundary = true;
            }
        }
        if !pol.modes.contains(&a.mode) {
            why.insert("mode");
        }
        let about_target = a.tgt == target;
        if !why.is_empty() {
            if about_target {
                r.excl_must.insert(i, why);
            } else {
                r.excl_may.insert(i, why);
            }
            continue;
        }
        if about_target {
            match a.stance {
                Stance::Support => r.sup.insert(i),
                Stance::Reject => r.opp.insert(i),
                Stance::Uncertain => r.unc.insert(i),
            };
        } else if functional && pol.expand && a.stance == Stance::Support {
            r.opp.insert(i);
            r.rival_opposition = true;
        }
    }
    let (g, s, b1) = side(asrs, &r.sup, pol.unstated, false);
    r.sup_groups = g;
    r.sup_score = s;
    let (g, s, b2) = side(asrs, &r.opp, pol.unstated, false);
    r.opp_groups = g;
    r.opp_score = s;
    r.bridge = b1 || b2;
    // assertions without an actor: "each its own voice" vs "one nameless actor" - not decided by
    // the specification; where the two readings differ the grouping is not compared
    let alt_s = side(asrs, &r.sup, pol.unstated, true);
    let alt_o = side(asrs, &r.opp, pol.unstated, true);
    r.nameless_ambiguous = alt_s.0 != r.sup_groups || alt_o.0 != r.opp_groups;
    for s in [r.sup_score, r.opp_score] {
        for th in [pol.accept, pol.material] {
            if (s - th).abs() < 1e-9 {
                r.near_tie = true;
            }
        }
    }
    let engaged = !r.sup.is_empty() || !r.opp.is_empty();
    r.statuses = if !engaged {
        if r.unc.is_empty() {
            vec!["insufficient"]
        } else {
            // somebody engaged without taking a side: "uncertain" (21.7) - "insufficient" (21.8)
            // is not excluded by the text either
            vec!["uncertain", "insufficient"]
        }
    } else if r.sup_score >= pol.accept && r.opp_score < pol.material {
        vec!["accepted"]
    } else if r.opp_score >= pol.accept && r.sup_score < pol.material {
        vec!["rejected"]
    } else if r.sup_score >= pol.material && r.opp_score >= pol.material {
        vec!["contested"]
    } else {
        vec!["uncertain"]
    };
    r
}

fn reason_class(reason: &str) -> Option<&'static str> {
    Some(match reason {
        "retracted" => "retracted",
        "superseded" => "superseded",
        "expired" | "outside_valid_time" => "temporal",
        "hypothetical_not_requested" | "prediction_not_requested" | "policy_excluded" => "mode",
        "not_visible" => "visibility",
        _ => return None,
    })
}

// ---------------------------------------------------------------------------------------------
// per-thread Nexus fixture

struct Fixture {
    nx: CognitiveNexus,
    actors: Vec<String>,
    evidence: Vec<String>,
    values: Vec<String>,
    policies: BTreeMap<&'static str, PolicyDesc>,
    /// subjects created so far (the Nexus is recycled when it has grown enough)
    used: usize,
    serial: u64,
}

thread_local! {
    static FIX: RefCell<Option<Fixture>> = const { RefCell::new(None) };
}

static NEXUS_SERIAL: std::sync::atomic::AtomicU64 = std::sync::atomic::AtomicU64::new(0);

fn mode_index(v: &Value) -> Option<usize> {
    MODES.iter().position(|m| Some(*m) == v.as_str())
}

async fn describe_policy(nx: &CognitiveNexus, name: &str) -> Result<PolicyDesc, String> {
    let d = exec_ok(nx, "DESCRIBE EPISTEMIC POLICY :n", &json!({"n": name})).await?;
    let modes = d["eligible_modes"]
        .as_array()
        .ok_or("policy description without eligible_modes")?
        .iter()
        .map(|m| mode_index(m).ok_or_else(|| format!("unknown mode {m}")))
        .collect::<Result<Vec<_>, _>>()?;
    Ok(PolicyDesc {
        id: d["id"].as_str().ok_or("policy description without id")?.to_string(),
        version: d["version"].clone(),
        modes,
        accept: d["accept_threshold"].as_f64().ok_or("no accept_threshold")?,
        material: d["material_threshold"].as_f64().ok_or("no material_threshold")?,
        unstated: d["unstated_confidence_weight"].as_f64().ok_or("no unstated weight")?,
        expand: d["conflict_set_expansion"].as_bool().ok_or("no conflict_set_expansion")?,
    })
}

async fn new_fixture() -> Result<Fixture, String> {
    let serial = NEXUS_SERIAL.fetch_add(1, std::sync::atomic::Ordering::Relaxed);
    let nx = fresh_nexus(&format!("c20_{serial}")).await?;
    let mut cmd = String::from("MUTATE {\n");
    for i in 0..N_ACT {
        cmd.push_str(&format!("CREATE CONCEPT ?a{i} {{ TYPE \"Person\" NAME \"actor{i}\" }}\n"));
    }
    for i in 0..N_VAL {
        cmd.push_str(&format!("CREATE CONCEPT ?v{i} {{ TYPE \"Status\" NAME \"value{i}\" }}\n"));
    }
    for i in 0..N_EV {
        cmd.push_str(&format!(
            "CREATE EVIDENCE ?e{i} {{ SET FIELDS {{ evidence_class: \"tool_result\", payload: \"observation {i}\" }} }}\n"
        ));
    }
    cmd.push('}');
    let r = exec_ok(&nx, &cmd, &Value::Null).await?;
    let h = |k: String| -> Result<String, String> {
        r["handles"][&k].as_str().map(str::to_string).ok_or(format!("no handle {k}"))
    };
    let mut policies = BTreeMap::new();
    policies.insert("baseline", describe_policy(&nx, "baseline").await?);
    policies.insert("forecast", describe_policy(&nx, "forecast").await?);
    Ok(Fixture {
        actors: (0..N_ACT).map(|i| h(format!("a{i}"))).collect::<Result<_, _>>()?,
        values: (0..N_VAL).map(|i| h(format!("v{i}"))).collect::<Result<_, _>>()?,
        evidence: (0..N_EV).map(|i| h(format!("e{i}"))).collect::<Result<_, _>>()?,
        nx,
        policies,
        used: 0,
        serial,
    })
}

/// Runs `f` with this thread's fixture (created on demand, recycled after `RECYCLE` subjects).
const RECYCLE: usize = 1500;
fn with_fixture<T>(f: impl AsyncFnOnce(&mut Fixture) -> Result<T, String>) -> Result<T, String> {
    vcore::run::block_on(async {
        let mut fx = match FIX.with(|c| c.borrow_mut().take()) {
            Some(fx) if fx.used < RECYCLE => fx,
            _ => new_fixture().await?,
        };
        let out = f(&mut fx).await;
        if out.is_ok() {
            FIX.with(|c| *c.borrow_mut() = Some(fx));
        }
        out
    })
}

fn pred(functional: bool) -> &'static str {
    if functional { "status" } else { "mentions" }
}

fn idref(id: &str) -> Value {
    json!({"id": id})
}

/// One recorded instance of a multiset: the subject, its propositions and the assertion ids in
/// multiset-index order.
#[derive(Debug, Clone)]
struct Recorded {
    subject: String,
    props: Vec<Option<String>>,
    ids: Vec<String>,
}

/// KML text + parameters creating assertion `a` about proposition handle/param `prop`.
/// `tag` makes parameter names unique inside a batch.
fn create_stmt(fx: &Fixture, a: &Asr, tag: &str, prop: &str, tuple: &str, p: &mut Map<String, Value>, rng: &mut Rng) -> String {
    let conf = a.conf.map(|c| {
        if rng.chance(1, 4) {
            let name = format!("c{tag}");
            p.insert(name.clone(), json!(c));
            format!(":{name}")
        } else {
            format!("{c}")
        }
    });
    create_stmt_with(fx, a, tag, prop, tuple, p, rng, conf)
}

/// As `create_stmt`, the confidence term (literal or parameter reference, None = not stated) given
/// by the caller (`a.conf` is ignored).
#[allow(clippy::too_many_arguments)]
fn create_stmt_with(fx: &Fixture, a: &Asr, tag: &str, prop: &str, tuple: &str, p: &mut Map<String, Value>, rng: &mut Rng, conf: Option<String>) -> String {
    let mut ev_terms = vec![];
    for e in 0..N_EV {
        if a.ev & (1 << e) != 0 {
            let name = format!("e{e}");
            p.insert(name.clone(), idref(&fx.evidence[e]));
            ev_terms.push((format!(":{name}"), a.challenge & (1 << e) != 0));
        }
    }
    if let Some(act) = a.actor {
        p.insert(format!("a{act}"), idref(&fx.actors[act as usize]));
    }
    let mut window = vec![];
    for (k, v) in [("from", a.from), ("until", a.until)] {
        if let Some(step) = v {
            let name = format!("w{k}{tag}");
            p.insert(name.clone(), json!(grid_time(step, rng.below(8) as u8)));
            window.push(format!("{k}: :{name}"));
        }
    }
    if a.sugar && a.actor.is_some() {
        let mut m = vec![format!("by: :a{}", a.actor.unwrap()), format!("mode: \"{}\"", MODES[a.mode])];
        if a.stance != Stance::Support || rng.bool() {
            m.push(format!("stance: \"{}\"", a.stance.s()));
        }
        if let Some(c) = conf {
            m.push(format!("confidence: {c}"));
        }
        if !ev_terms.is_empty() {
            let l: Vec<String> = ev_terms.iter().map(|(t, _)| t.clone()).collect();
            m.push(if l.len() == 1 && rng.bool() { format!("evidence: {}", l[0]) } else { format!("evidence: [{}]", l.join(", ")) });
        }
        if !window.is_empty() {
            m.push(format!("valid: {{{}}}", window.join(", ")));
        }
        format!("ASSERT ?x{tag} {tuple} {{ {} }}", m.join(", "))
    } else {
        let mut f = vec![format!("proposition: {prop}")];
        if let Some(act) = a.actor {
            f.push(format!("asserted_by: :a{act}"));
        }
        f.push(format!("stance: \"{}\"", a.stance.s()));
        f.push(format!("mode: \"{}\"", MODES[a.mode]));
        if let Some(c) = conf {
            f.push(format!("confidence: {c}"));
        }
        if !window.is_empty() {
            f.push(format!("valid_time: {{{}}}", window.join(", ")));
        }
        let st = if ev_terms.is_empty() {
            String::new()
        } else {
            let l: Vec<String> = ev_terms
                .iter()
                .map(|(t, ch)| format!("(\"evidence\", {t}) {{role: \"{}\"}}", if *ch { "challenge" } else { "support" }))
                .collect();
            format!(" SET STRUCTURAL {{ {} }}", l.join(" "))
        };
        format!("CREATE ASSERTION ?x{tag} {{ SET FIELDS {{ {} }}{st} }}", f.join(", "))
    }
}

/// Records the multiset `asrs` in the order `order` under a fresh subject. `batched`: all
/// creations in one MUTATE (ids still ascend in statement order), else one statement each.
async fn record(
    fx: &mut Fixture,
    asrs: &[Asr],
    functional: bool,
    order: &[usize],
    batched: bool,
    rng: &mut Rng,
    st: &mut Stats,
) -> Result<Recorded, String> {
    fx.used += 1;
    let n = fx.used;
    let mut targets: BTreeSet<u8> = asrs.iter().map(|a| a.tgt).collect();
    targets.insert(0);
    let mut cmd = format!("MUTATE {{\nCREATE CONCEPT ?s {{ TYPE \"Service\" NAME \"subject {}-{n}\" }}\n", fx.serial);
    let mut p = Map::new();
    for t in &targets {
        p.insert(format!("v{t}"), idref(&fx.values[*t as usize]));
        cmd.push_str(&format!("ENSURE PROPOSITION ?p{t} (?s, \"{}\", :v{t})\n", pred(functional)));
    }
    let mut ids: Vec<String> = vec![String::new(); asrs.len()];
    let mut props: Vec<Option<String>> = vec![None; N_VAL];
    let subject;
    if batched {
        for (pos, &i) in order.iter().enumerate() {
            // long form only: a second ENSURE of a tuple staged earlier in the same MUTATE (which is
            // what the ASSERT sugar desugars to) is refused by the engine with IdentityConflict
            let a = &Asr { sugar: false, ..asrs[i].clone() };
            let tuple = format!("(?s, \"{}\", :v{})", pred(functional), a.tgt);
            cmd.push_str(&create_stmt(fx, a, &format!("{pos}"), &format!("?p{}", a.tgt), &tuple, &mut p, rng));
            cmd.push('\n');
        }
        cmd.push('}');
        let r = exec_ok(&fx.nx, &cmd, &Value::Object(p)).await?;
        st.count("kml_mutate_batches");
        subject = r["handles"]["s"].as_str().ok_or("no subject handle")?.to_string();
        for t in &targets {
            props[*t as usize] = r["handles"][format!("p{t}")].as_str().map(str::to_string);
        }
        for (pos, &i) in order.iter().enumerate() {
            ids[i] = r["handles"][format!("x{pos}")].as_str().ok_or("no assertion handle")?.to_string();
        }
    } else {
        cmd.push('}');
        let r = exec_ok(&fx.nx, &cmd, &Value::Object(p)).await?;
        subject = r["handles"]["s"].as_str().ok_or("no subject handle")?.to_string();
        for t in &targets {
            props[*t as usize] = r["handles"][format!("p{t}")].as_str().map(str::to_string);
        }
        for (pos, &i) in order.iter().enumerate() {
            let a = &asrs[i];
            let mut p = Map::new();
            p.insert("s".into(), idref(&subject));
            p.insert(format!("v{}", a.tgt), idref(&fx.values[a.tgt as usize]));
            p.insert("p".into(), idref(props[a.tgt as usize].as_ref().unwrap()));
            let tuple = format!("(:s, \"{}\", :v{})", pred(functional), a.tgt);
            let mut stmt = create_stmt(fx, a, &format!("{pos}"), ":p", &tuple, &mut p, rng);
            if !(a.sugar && a.actor.is_some()) && rng.bool() {
                stmt = format!("MUTATE {{ {stmt} }}");
            }
            st.count(if a.sugar && a.actor.is_some() { "kml_assert_sugar" } else { "kml_create_assertion" });
            let r = exec_ok(&fx.nx, &stmt, &Value::Object(p)).await?;
            ids[i] = r["handles"][format!("x{pos}")].as_str().ok_or("no assertion handle")?.to_string();
        }
    }
    // lifecycle operations, in a random order after the creations
    let mut ops: Vec<usize> = (0..asrs.len()).filter(|i| asrs[*i].life != Life::Active).collect();
    rng.shuffle(&mut ops);
    for i in ops {
        match asrs[i].life {
            Life::Active => {}
            Life::Retracted => {
                let c = if rng.bool() { "RETRACT ASSERTION :a EXPECT STATE \"active\"" } else { "RETRACT ASSERTION :a" };
                exec_ok(&fx.nx, c, &json!({"a": ids[i]})).await?;
                st.count("kml_retract");
            }
            Life::Superseded(j) => {
                exec_ok(&fx.nx, "SUPERSEDE ASSERTION :old BY :new", &json!({"old": ids[i], "new": ids[j]})).await?;
                st.count("kml_supersede");
            }
            Life::Archived => {
                exec_ok(&fx.nx, "ARCHIVE :a", &json!({"a": ids[i]})).await?;
                st.count("kml_archive");
            }
        }
    }
    Ok(Recorded { subject, props, ids })
}

// ---------------------------------------------------------------------------------------------
// asking and judging

/// The policy parameters a query should be answered under, from the published descriptions.
fn expected_policy(fx: &Fixture, q: &PolicyReq) -> PolicyDesc {
    let base = match q.name {
        Some("forecast") | Some("kip:policy:forecast") => &fx.policies["forecast"],
        _ => &fx.policies["baseline"],
    };
    let mut p = base.clone();
    if let Some(a) = q.accept {
        p.accept = a;
    }
    if let Some(m) = q.material {
        p.material = m;
    }
    if let Some(m) = &q.modes {
        p.modes = m.clone();
    }
    p
}

/// Runs one belief query; returns the answers as (target value index, belief JSON).
async fn ask(fx: &Fixture, rec: &Recorded, functional: bool, q: &Query) -> Result<Vec<(u8, Value)>, String> {
    ask_in(&fx.nx, &fx.values, rec, functional, q, 0, None).await
}

/// How a read names the coordinate it is bound to.
#[derive(Clone, Debug)]
enum Coord {
    Seq(u64),
    SeqParam(u64),
    Tx(String),
    Time(String),
    /// the request envelope's `read.snapshot_token` (the command itself has no AS OF)
    Token(String),
}
impl Coord {
    fn kind(&self) -> &'static str {
        match self {
            Coord::Seq(_) | Coord::SeqParam(_) => "SEQ",
            Coord::Tx(_) => "TX",
            Coord::Time(_) => "TIME",
            Coord::Token(_) => "TOKEN",
        }
    }
}

const FOREIGN_SLOT: &str = "slot candidate is not a proposition of this subject";

/// One command in a request bound to a snapshot token; requires success, returns the first result.
async fn exec_bound_ok(nx: &CognitiveNexus, command: &str, params: &Value, token: &str) -> Result<Value, String> {
    let mut op = json!({"command": command});
    if params.as_object().map(|m| !m.is_empty()).unwrap_or(false) {
        op["parameters"] = params.clone();
    }
    let request: Request = serde_json::from_value(json!({"kip": "2.0", "read": {"snapshot_token": token}, "operations": [op]}))
        .map_err(|e| format!("request envelope: {e}"))?;
    let parsed = request.operations[0].parse().map_err(|e| format!("parse error: {} {}", e.name(), e.message))?;
    let r = nx.execute(parsed, &request, &request.operations[0]).await;
    if r.status != TopLevelStatus::Succeeded {
        return Err(format!("command failed (bound to snapshot token {token}): {command} params={params} -> {}", serde_json::to_string(&r).unwrap_or_default()));
    }
    Ok(r.first_result().cloned().unwrap_or(Value::Null))
}

/// The belief query `q` about value `target` of the recorded subject, in the Nexus `nx` whose
/// value Concepts are `values`, optionally bound to a past coordinate.
async fn ask_in(
    nx: &CognitiveNexus,
    values: &[String],
    rec: &Recorded,
    functional: bool,
    q: &Query,
    target: u8,
    coord: Option<&Coord>,
) -> Result<Vec<(u8, Value)>, String> {
    let mut p = Map::new();
    let pt = rec.props[target as usize].as_ref().ok_or("no target proposition")?;
    let body = match q.form {
        0 => {
            p.insert("p".into(), json!(pt));
            "FIND(?b) WHERE { ?b BELIEF (id: :p) }".to_string()
        }
        1 => {
            p.insert("s".into(), idref(&rec.subject));
            p.insert("v".into(), idref(&values[target as usize]));
            format!("FIND(?b) WHERE {{ ?p PROPOSITION (:s, \"{}\", :v) ?b BELIEF (?p) }}", pred(functional))
        }
        2 => {
            p.insert("s".into(), idref(&rec.subject));
            p.insert("v".into(), idref(&values[target as usize]));
            format!("FIND(?b) WHERE {{ ?b BELIEF (:s, \"{}\", :v) }}", pred(functional))
        }
        _ => {
            p.insert("s".into(), idref(&rec.subject));
            format!("FIND(?slot) WHERE {{ ?slot BELIEF SLOT (:s, \"{}\") }}", pred(functional))
        }
    };
    let mut cmd = body;
    let mut token = None;
    match coord {
        None => {}
        Some(Coord::Seq(n)) => cmd.push_str(&format!(" AS OF SEQ {n}")),
        Some(Coord::SeqParam(n)) => {
            p.insert("asof".into(), json!(n));
            cmd.push_str(" AS OF SEQ :asof");
        }
        Some(Coord::Tx(t)) => {
            p.insert("asof".into(), json!(t));
            cmd.push_str(" AS OF TX :asof");
        }
        Some(Coord::Time(t)) => {
            p.insert("asof".into(), json!(t));
            cmd.push_str(" AS OF TIME :asof");
        }
        Some(Coord::Token(t)) => token = Some(t.clone()),
    }
    if let Some(step) = q.at {
        p.insert("t".into(), json!(grid_time(step, q.spelling)));
        cmd.push_str(" FOR TIME :t");
    }
    cmd.push_str(&q.policy.clause());
    let out = match &token {
        None => exec_ok(nx, &cmd, &Value::Object(p)).await?,
        Some(t) => exec_bound_ok(nx, &cmd, &Value::Object(p), t).await?,
    };
    let rows = out.as_array().ok_or("belief result is not an array")?;
    if rows.len() != 1 {
        return Err(format!("belief query returned {} rows: {cmd}", rows.len()));
    }
    if q.form == 3 {
        let cands = rows[0]["candidate_projections"].as_array().ok_or("slot without candidate_projections")?;
        let mut v = vec![];
        for c in cands {
            let pid = c["proposition_id"].as_str().unwrap_or("");
            let t = rec.props.iter().position(|x| x.as_deref() == Some(pid)).ok_or_else(|| format!("{FOREIGN_SLOT}: {pid} in {cmd}"))?;
            v.push((t as u8, c.clone()));
        }
        Ok(v)
    } else {
        Ok(vec![(target, rows[0].clone())])
    }
}

struct Parsed {
    status: String,
    sup: BTreeSet<usize>,
    opp: BTreeSet<usize>,
    unc: BTreeSet<usize>,
    excl: BTreeMap<usize, String>,
    sup_groups: u64,
    opp_groups: u64,
    sup_score: f64,
    opp_score: f64,
    policy_id: String,
    policy_version: Value,
    valid_at: String,
}

fn parse_answer(b: &Value, rec: &Recorded) -> Result<Parsed, String> {
    let idx = |v: &Value| -> Result<usize, String> {
        let s = v.as_str().ok_or("assertion id is not a string")?;
        rec.ids.iter().position(|x| x == s).ok_or(format!("answer names assertion {s} which is not part of this case"))
    };
    let set = |v: &Value| -> Result<BTreeSet<usize>, String> {
        let arr = v.as_array().ok_or("id list missing")?;
        let s: BTreeSet<usize> = arr.iter().map(idx).collect::<Result<_, _>>()?;
        if s.len() != arr.len() {
            return Err("an assertion is listed twice in one ledger".into());
        }
        Ok(s)
    };
    let mut excl = BTreeMap::new();
    for e in b["explanation"]["excluded"].as_array().ok_or("no excluded list")? {
        if excl.insert(idx(&e["assertion_id"])?, e["reason"].as_str().unwrap_or("").to_string()).is_some() {
            return Err("an assertion is listed twice as excluded".into());
        }
    }
    Ok(Parsed {
        status: b["status"].as_str().ok_or("no status")?.to_string(),
        sup: set(&b["support"]["assertion_ids"])?,
        opp: set(&b["opposition"]["assertion_ids"])?,
        unc: set(&b["explanation"]["uncertain_assertions"])?,
        excl,
        sup_groups: b["support"]["independent_groups"].as_u64().ok_or("no support groups")?,
        opp_groups: b["opposition"]["independent_groups"].as_u64().ok_or("no opposition groups")?,
        sup_score: b["support"]["score"].as_f64().ok_or("no support score")?,
        opp_score: b["opposition"]["score"].as_f64().ok_or("no opposition score")?,
        policy_id: b["policy"]["id"].as_str().ok_or("answer carries no policy id")?.to_string(),
        policy_version: b["policy"]["version"].clone(),
        valid_at: b["temporal"]["valid_at"].as_str().unwrap_or("").to_string(),
    })
}

/// Laws that need no reference, on one answer.
fn laws(a: &Parsed, ctx: &dyn Fn() -> Value, st: &mut Stats) {
    st.count("law_checks");
    if a.sup.is_empty() && a.opp.is_empty() && a.unc.is_empty() && a.status != "insufficient" {
        st.violation("C20/law/no_eligible_assertion_not_insufficient", json!({"status": a.status, "context": ctx()}));
    }
    if a.status == "rejected" && (a.opp_groups == 0 || a.opp.is_empty()) {
        st.violation("C20/law/rejected_without_opposition", ctx());
    }
    if a.status == "accepted" && (a.sup_groups == 0 || a.sup.is_empty()) {
        st.violation("C20/law/accepted_without_support", ctx());
    }
    for s in [a.sup_score, a.opp_score] {
        if !(0.0..=1.0).contains(&s) || s.is_nan() {
            st.violation("C20/law/score_out_of_range", json!({"score": s, "context": ctx()}));
        }
    }
    if a.sup_groups as usize > a.sup.len() || a.opp_groups as usize > a.opp.len() {
        st.violation("C20/law/more_groups_than_assertions", ctx());
    }
    if (a.sup.is_empty()) != (a.sup_groups == 0) || (a.opp.is_empty()) != (a.opp_groups == 0) {
        st.violation("C20/law/groups_vs_ledger", ctx());
    }
    if a.policy_id.is_empty() || a.policy_version.is_null() {
        st.violation("C20/law/answer_without_policy_identity", ctx());
    }
}

/// Reference comparison of one answer.
#[allow(clippy::too_many_arguments)]
fn judge(
    a: &Parsed,
    r: &RefAns,
    q: &Query,
    base_id: &str,
    base_version: &Value,
    ctx: &dyn Fn() -> Value,
    st: &mut Stats,
) {
    judge_with(a, r, q, base_id, base_version, ctx, st, true)
}

/// `scores == false`: the multiset holds a confidence outside the documented scale; what the
/// score of such a record should be is not stated by the property, so only the parts of the answer
/// that do not depend on confidences (ledgers, exclusions, grouping, policy identity) are compared.
#[allow(clippy::too_many_arguments)]
fn judge_with(
    a: &Parsed,
    r: &RefAns,
    q: &Query,
    base_id: &str,
    base_version: &Value,
    ctx: &dyn Fn() -> Value,
    st: &mut Stats,
    scores: bool,
) {
    st.eval();
    st.count("ref_comparisons");
    let fail = |st: &mut Stats, what: &str, d: Value| {
        st.violation(format!("C20/ref/{what}"), json!({"what": d, "context": ctx()}));
    };
    // policy identity
    if q.policy.overridden() {
        st.count("threshold_override_queries");
        if a.policy_id == base_id {
            fail(st, "policy_id_unchanged_by_override", json!({"answer_policy": a.policy_id}));
        }
    } else if a.policy_id != base_id || &a.policy_version != base_version {
        fail(st, "policy_identity", json!({"answer_policy": a.policy_id, "described": base_id}));
    }
    if let Some(step) = q.at {
        if a.valid_at != grid_canonical(step) {
            fail(st, "valid_at", json!({"got": a.valid_at, "expected": grid_canonical(step)}));
        }
    }
    if r.boundary {
        st.count("ref_skipped_window_boundary");
        return;
    }
    if a.sup != r.sup || a.opp != r.opp || a.unc != r.unc {
        fail(st, "ledger", json!({"support": [format!("{:?}", a.sup), format!("{:?}", r.sup)],
            "opposition": [format!("{:?}", a.opp), format!("{:?}", r.opp)],
            "uncertain": [format!("{:?}", a.unc), format!("{:?}", r.unc)]}));
        return;
    }
    // excluded: every ineligible assertion about the target is listed, nothing eligible is, and
    // each reason is one that applies
    for (i, why) in &r.excl_must {
        match a.excl.get(i) {
            None => fail(st, "excluded_missing", json!({"assertion": i, "applicable": format!("{why:?}")})),
            Some(reason) => match reason_class(reason) {
                None => st.inconclusive(format!("C20: exclusion reason {reason:?} is not in the monitor's vocabulary")),
                Some(c) if !why.contains(c) => fail(st, "excluded_reason", json!({"assertion": i, "reason": reason, "applicable": format!("{why:?}")})),
                Some(c) => st.count(&format!("excluded_{c}")),
            },
        }
    }
    for (i, reason) in &a.excl {
        if !r.excl_must.contains_key(i) {
            match r.excl_may.get(i) {
                Some(why) if reason_class(reason).map(|c| why.contains(c)).unwrap_or(true) => {}
                _ => fail(st, "excluded_but_eligible", json!({"assertion": i, "reason": reason})),
            }
        }
    }
    if r.nameless_ambiguous {
        st.count("ref_grouping_skipped_unattributed_assertions");
        return;
    }
    if a.sup_groups as usize != r.sup_groups || a.opp_groups as usize != r.opp_groups {
        fail(st, "independent_groups", json!({"got": [a.sup_groups, a.opp_groups], "expected": [r.sup_groups, r.opp_groups]}));
    }
    if !scores {
        st.count("ref_scores_skipped_confidence_outside_the_scale");
        return;
    }
    if (a.sup_score - r.sup_score).abs() > 1e-9 || (a.opp_score - r.opp_score).abs() > 1e-9 {
        fail(st, "score", json!({"got": [a.sup_score, a.opp_score], "expected": [r.sup_score, r.opp_score]}));
    }
    if r.near_tie {
        st.count("ref_status_skipped_threshold_tie");
    } else if !r.statuses.contains(&a.status.as_str()) {
        fail(st, "status", json!({"got": a.status, "expected": r.statuses,
            "scores": [r.sup_score, r.opp_score]}));
    }
    st.count(&format!("status_{}", a.status));
    if r.bridge {
        st.count("bridge_merging_cases");
    }
    if r.rival_opposition {
        st.count("functional_rival_cases");
    }
    if r.sup.is_empty() && r.opp.is_empty() && r.unc.is_empty() && !r.excl_must.is_empty() {
        st.count("only_excluded_cases");
    }
}

/// Canonical, id-free projection of an answer for the permutation oracle.
fn canonical(a: &Parsed, asrs: &[Asr], timed: bool) -> Value {
    let d = |s: &BTreeSet<usize>| {
        let mut v: Vec<String> = s.iter().map(|i| asrs[*i].desc()).collect();
        v.sort();
        v
    };
    let mut ex: Vec<String> = a.excl.iter().map(|(i, r)| format!("{} <- {r}", asrs[*i].desc())).collect();
    ex.sort();
    json!({"support": d(&a.sup), "opposition": d(&a.opp), "uncertain": d(&a.unc), "excluded": ex,
        "groups": [a.sup_groups, a.opp_groups], "policy": [a.policy_id, a.policy_version],
        // without FOR TIME the answer is evaluated at the wall clock of the request
        "valid_at": if timed { a.valid_at.clone() } else { String::new() }})
}

// ---------------------------------------------------------------------------------------------
// randomized tier: generated multisets, several recording orders, addition laws

fn gen_conf(rng: &mut Rng) -> Option<f64> {
    match rng.weighted(&[15, 65, 20]) {
        0 => None,
        1 => Some(*rng.pick(&[0.0, 0.2, 0.35, 0.45, 0.65, 0.75, 0.9, 1.0])),
        _ => Some((rng.f64() * 1000.0).round() / 1000.0),
    }
}

/// A hub: 3-4 assertions on one side that are pairwise independent (distinct actors, disjoint
/// evidence) plus one assertion that shares an actor or an evidence id with every one of them, so
/// that ALL of them are one group. Recorded hub-last, hub-first and shuffled (the orders of
/// `random_case`), with a few unrelated assertions mixed in. Merging several earlier groups at once
/// is the step small multisets (<= 3) never exercise.
fn gen_hub_case(rng: &mut Rng) -> (Vec<Asr>, bool) {
    let functional = rng.chance(1, 3);
    let stance = if rng.chance(2, 3) { Stance::Support } else { Stance::Reject };
    let tgt = 0u8;
    let base = |actor: u8, ev: u8, rng: &mut Rng| Asr {
        actor: Some(actor), ev, tgt, stance, conf: Some(*rng.pick(&[0.35, 0.5, 0.65])), mode: rng.below(2) as usize,
        from: None, until: None, life: Life::Active, sugar: false, challenge: 0,
    };
    let four = rng.bool();
    let mut v: Vec<Asr> = if four {
        // G1 (a0, no evidence) G2 (a1, e0) G3 (a2, e1) G4 (a3, e2); hub = a0 citing e0+e1+e2
        vec![base(0, 0, rng), base(1, 0b001, rng), base(2, 0b010, rng), base(3, 0b100, rng)]
    } else {
        // G1 (a0, e0) G2 (a1, e1) G3 (a2, e2); hub = a3 citing e0+e1+e2
        vec![base(0, 0b001, rng), base(1, 0b010, rng), base(2, 0b100, rng)]
    };
    rng.shuffle(&mut v);
    // unrelated extras (other side / rival value), placed before the hub
    for _ in 0..rng.usize(3) {
        let mut x = base(rng.below(3) as u8, 0, rng);
        x.stance = if stance == Stance::Support { Stance::Reject } else { Stance::Support };
        if rng.bool() {
            x.tgt = 1;
            x.stance = Stance::Support;
        }
        let at = rng.usize(v.len() + 1);
        v.insert(at, x);
    }
    let hub = base(if four { 0 } else { 3 }, 0b111, rng);
    v.push(hub);
    (v, functional)
}

fn gen_case(rng: &mut Rng) -> (Vec<Asr>, bool) {
    if rng.chance(1, 7) {
        return gen_hub_case(rng);
    }
    let functional = rng.bool();
    let n = rng.weighted(&[3, 8, 14, 22, 20, 14, 10, 9]);
    let mut v: Vec<Asr> = vec![];
    for _ in 0..n {
        let actor = if rng.chance(1, 10) { None } else { Some(rng.below(3) as u8) };
        let mut ev = 0u8;
        for e in 0..3 {
            if rng.chance(1, 3) {
                ev |= 1 << e;
            }
        }
        let tgt = if rng.chance(if functional { 65 } else { 80 }, 100) { 0 } else { 1 + rng.below(2) as u8 };
        let stance = [Stance::Support, Stance::Reject, Stance::Uncertain][rng.weighted(&[60, 30, 10])];
        let (mut from, mut until) = (None, None);
        if rng.chance(2, 5) {
            if rng.chance(2, 3) {
                from = Some(2 * rng.below(6) as u8);
            }
            if rng.chance(2, 3) {
                let lo = from.map(|f| f / 2 + 1).unwrap_or(1) as u64;
                until = Some(2 * rng.range(lo, 8) as u8);
            }
        }
        let sugar = actor.is_some() && rng.bool();
        v.push(Asr {
            actor,
            ev,
            tgt,
            stance,
            conf: gen_conf(rng),
            mode: rng.weighted(&[30, 30, 10, 10, 10, 10]),
            from,
            until,
            life: Life::Active,
            sugar,
            challenge: if sugar { 0 } else { ev & rng.below(8) as u8 },
        });
    }
    for i in 0..v.len() {
        v[i].life = match rng.weighted(&[70, 12, 10, 8]) {
            0 => Life::Active,
            1 => Life::Retracted,
            2 => {
                let partners: Vec<usize> = (0..v.len()).filter(|j| *j != i && v[*j].tgt == v[i].tgt).collect();
                if partners.is_empty() { Life::Retracted } else { Life::Superseded(*rng.pick(&partners)) }
            }
            _ => Life::Archived,
        };
    }
    (v, functional)
}

fn gen_query(rng: &mut Rng) -> Query {
    let at = match rng.weighted(&[30, 60, 10]) {
        0 => None,
        1 => Some(1 + 2 * rng.below(8) as u8),
        _ => Some(2 * rng.below(9) as u8),
    };
    let mut policy = PolicyReq::default();
    match rng.weighted(&[40, 20, 40]) {
        0 => {}
        1 => policy.name = Some(*rng.pick(&["baseline", "kip:policy:baseline", "forecast", "kip:policy:forecast"])),
        _ => {
            if rng.chance(1, 4) {
                policy.name = Some(*rng.pick(&["baseline", "forecast"]));
            }
            let accept = *rng.pick(&[0.5, 0.6, 0.7, 0.8, 0.95, 1.0]);
            let material: f64 = *rng.pick(&[0.0, 0.1, 0.1, 0.3, 0.3, 0.5, 0.5]);
            match rng.below(4) {
                0 => policy.accept = Some(accept),
                1 => policy.material = Some(material.min(0.7)),
                2 => {
                    policy.accept = Some(accept);
                    policy.material = Some(material.min(accept));
                }
                _ => {
                    let mut ms: Vec<usize> = (0..6).filter(|_| rng.bool()).collect();
                    if ms.is_empty() && rng.chance(3, 4) {
                        ms.push(rng.usize(6));
                    }
                    policy.modes = Some(ms);
                }
            }
        }
    }
    Query { at, spelling: rng.below(8) as u8, policy, form: rng.weighted(&[40, 20, 20, 20]) as u8 }
}

fn all_orders(n: usize) -> Vec<Vec<usize>> {
    fn rec(cur: &mut Vec<usize>, used: &mut Vec<bool>, out: &mut Vec<Vec<usize>>) {
        if cur.len() == used.len() {
            out.push(cur.clone());
            return;
        }
        for i in 0..used.len() {
            if !used[i] {
                used[i] = true;
                cur.push(i);
                rec(cur, used, out);
                cur.pop();
                used[i] = false;
            }
        }
    }
    let mut out = vec![];
    rec(&mut vec![], &mut vec![false; n], &mut out);
    out
}

fn case_json(asrs: &[Asr], functional: bool) -> Value {
    json!({"functional": functional, "assertions": asrs.iter().enumerate().map(|(i, a)| format!("#{i} {} life={:?} sugar={} challenge={:03b}", a.desc(), a.life, a.sugar, a.challenge)).collect::<Vec<_>>()})
}

fn random_case(case: u64, rng: &mut Rng, st: &mut Stats, thorough: bool) {
    let (asrs, functional) = gen_case(rng);
    let n = asrs.len();
    if n >= 4 && asrs.last().map(|a| a.ev == 0b111 && a.challenge == 0 && a.from.is_none()).unwrap_or(false)
        && asrs.iter().filter(|a| a.stance == asrs[n - 1].stance && a.tgt == 0).count() >= 4 {
        st.count("hub_cases_merging_three_or_more_groups");
    }
    let mut queries: Vec<Query> = (0..if thorough { 10 } else { 7 }).map(|_| gen_query(rng)).collect();
    queries[0] = Query { at: None, spelling: 0, policy: PolicyReq::default(), form: 0 };
    let mut orders = if n <= 3 || (n == 4 && thorough) {
        all_orders(n)
    } else {
        let mut o: Vec<Vec<usize>> = vec![(0..n).collect(), (0..n).rev().collect()];
        for _ in 0..if thorough { 4 } else { 2 } {
            let mut x: Vec<usize> = (0..n).collect();
            rng.shuffle(&mut x);
            if !o.contains(&x) {
                o.push(x);
            }
        }
        o
    };
    if n == 0 {
        orders = vec![vec![]];
    }
    st.count(&format!("random_cases_size_{}", n.min(7)));
    let res = with_fixture(async |fx: &mut Fixture| {
        // per query, per target: (order index, parsed answer)
        let mut seen: Vec<BTreeMap<u8, Vec<(usize, Parsed)>>> = (0..queries.len()).map(|_| BTreeMap::new()).collect();
        let mut first: Option<Recorded> = None;
        for (oi, order) in orders.iter().enumerate() {
            let batched = rng.chance(1, 3);
            let rec = record(fx, &asrs, functional, order, batched, rng, st).await?;
            st.count("orders_recorded");
            for (qi, q) in queries.iter().enumerate() {
                let pol = expected_policy(fx, &q.policy);
                let base = match q.policy.name {
                    Some("forecast") | Some("kip:policy:forecast") => &fx.policies["forecast"],
                    _ => &fx.policies["baseline"],
                };
                st.count(&format!("query_form_{}", q.form));
                for (tgt, b) in ask(fx, &rec, functional, q).await? {
                    let ctx = || json!({"case": case, "multiset": case_json(&asrs, functional), "order": order, "query": format!("{q:?}"), "target": tgt, "answer": b});
                    let a = match parse_answer(&b, &rec) {
                        Ok(a) => a,
                        Err(e) => {
                            st.violation("C20/answer_malformed", json!({"error": e, "context": ctx()}));
                            continue;
                        }
                    };
                    laws(&a, &ctx, st);
                    let r = reference(&asrs, functional, tgt, q.at, &pol);
                    judge(&a, &r, q, &base.id, &base.version, &ctx, st);
                    seen[qi].entry(tgt).or_default().push((oi, a));
                }
            }
            if oi == 0 {
                first = Some(rec);
            }
        }
        // permutation invariance
        for (qi, per_t) in seen.iter().enumerate() {
            let pol = expected_policy(fx, &queries[qi].policy);
            for (tgt, answers) in per_t {
                let (o0, a0) = &answers[0];
                let timed = queries[qi].at.is_some();
                let c0 = canonical(a0, &asrs, timed);
                for (oi, a) in &answers[1..] {
                    st.count("permutations_compared");
                    let near = [a0.sup_score, a0.opp_score, a.sup_score, a.opp_score]
                        .iter()
                        .any(|s| (s - pol.accept).abs() < 1e-9 || (s - pol.material).abs() < 1e-9);
                    let same = canonical(a, &asrs, timed) == c0
                        && (a.sup_score - a0.sup_score).abs() <= 1e-9
                        && (a.opp_score - a0.opp_score).abs() <= 1e-9
                        && (near || a.status == a0.status);
                    if near {
                        st.count("permutation_status_skipped_threshold_tie");
                    }
                    if !same {
                        st.violation(
                            "C20/permutation/answer_depends_on_recording_order",
                            json!({"case": case, "multiset": case_json(&asrs, functional), "query": format!("{:?}", queries[qi]), "target": tgt,
                                "order_a": orders[*o0], "order_b": orders[*oi],
                                "answer_a": {"canonical": c0, "status": a0.status, "scores": [a0.sup_score, a0.opp_score]},
                                "answer_b": {"canonical": canonical(a, &asrs, timed), "status": a.status, "scores": [a.sup_score, a.opp_score]}}),
                        );
                    }
                }
            }
        }
        // addition laws on the first recorded instance
        if let Some(rec) = first {
            addition_laws(fx, case, asrs.clone(), functional, rec, rng, st).await?;
        }
        Ok(())
    });
    if let Err(e) = res {
        st.inconclusive(format!("C20 random case {case}: {e}"));
    }
    let eligible_now = asrs.iter().filter(|a| a.life == Life::Active && a.tgt == 0 && a.stance != Stance::Uncertain).count();
    if eligible_now >= 2 {
        let mut d: Vec<String> = asrs.iter().map(|a| a.desc()).collect();
        d.sort();
        st.distinct(vcore::hash_debug(&(d, functional)));
    }
    st.sample(|| json!({"monitor": "random", "case": case, "multiset": case_json(&asrs, functional), "orders": orders.len(), "queries": queries.len()}));
}

/// "Repetition is not support": adds assertions to an already recorded multiset and compares
/// the answer before / after.
async fn addition_laws(
    fx: &mut Fixture,
    case: u64,
    mut asrs: Vec<Asr>,
    functional: bool,
    mut rec: Recorded,
    rng: &mut Rng,
    st: &mut Stats,
) -> Result<(), String> {
    let q = Query {
        at: if rng.bool() { None } else { Some(1 + 2 * rng.below(8) as u8) },
        spelling: rng.below(8) as u8,
        policy: if rng.chance(1, 4) { PolicyReq { name: Some("forecast"), ..Default::default() } } else { PolicyReq::default() },
        form: 0,
    };
    let pol = expected_policy(fx, &q.policy);
    for step in 0..3 {
        let before_json = ask(fx, &rec, functional, &q).await?.remove(0).1;
        let Ok(before) = parse_answer(&before_json, &rec) else { return Ok(()) };
        // a contributing assertion y and its side
        let mut ys: Vec<(usize, bool)> = before.sup.iter().map(|i| (*i, false)).collect();
        ys.extend(before.opp.iter().map(|i| (*i, true)));
        if ys.is_empty() {
            return Ok(());
        }
        let (yi, opposing) = *rng.pick(&ys);
        let y = asrs[yi].clone();
        let mut x = Asr { life: Life::Active, sugar: false, challenge: 0, ..y.clone() };
        let same_side: Vec<usize> = ys.iter().filter(|(i, o)| *o == opposing && *i != yi && asrs[*i].ev != 0 && !adjacent(&y, &asrs[*i], true)).map(|(i, _)| *i).collect();
        // actor 3 is never generated: a voice nobody has heard from yet (until this law used it)
        let fresh_voice = !asrs.iter().any(|a| a.actor == Some(3));
        let kind = match rng.weighted(&[30, 25, 25, 20]) {
            1 if y.ev != 0 && fresh_voice => "shared_evidence_new_voice",
            2 if y.actor.is_some() => "louder_repeat",
            3 if y.ev != 0 && !same_side.is_empty() => "bridge",
            _ if y.actor.is_some() => "repeat_same_actor",
            _ if y.ev != 0 && fresh_voice => "shared_evidence_new_voice",
            _ => return Ok(()),
        };
        let sub = |rng: &mut Rng, m: u8, nonempty: bool| -> u8 {
            let mut s = m & rng.below(16) as u8;
            if nonempty && s == 0 {
                s = 1 << m.trailing_zeros();
            }
            s
        };
        let softer = |rng: &mut Rng, c: Option<f64>| c.map(|c| if rng.bool() { c } else { (c * rng.f64() * 1000.0).floor() / 1000.0 });
        match kind {
            "repeat_same_actor" => {
                x.ev = sub(rng, y.ev, false);
                x.conf = softer(rng, y.conf);
                x.sugar = rng.bool();
            }
            "shared_evidence_new_voice" => {
                x.actor = Some(3);
                x.ev = sub(rng, y.ev, true);
                x.conf = softer(rng, y.conf);
            }
            "louder_repeat" => {
                x.ev = sub(rng, y.ev, false);
                x.conf = Some(match y.conf {
                    Some(c) => (c + (1.0 - c) * rng.f64()).min(1.0),
                    None => 1.0,
                });
            }
            _ => {
                let z = &asrs[*rng.pick(&same_side)];
                x.actor = if fresh_voice { Some(3) } else { None };
                x.ev = (1 << y.ev.trailing_zeros()) | (1 << z.ev.trailing_zeros());
                x.mode = y.mode;
                x.conf = gen_conf(rng);
            }
        }
        // record x about the same proposition as y
        let mut p = Map::new();
        p.insert("s".into(), idref(&rec.subject));
        p.insert(format!("v{}", x.tgt), idref(&fx.values[x.tgt as usize]));
        p.insert("p".into(), idref(rec.props[x.tgt as usize].as_ref().ok_or("no proposition for addition")?));
        let tuple = format!("(:s, \"{}\", :v{})", pred(functional), x.tgt);
        let stmt = create_stmt(fx, &x, "add", ":p", &tuple, &mut p, rng);
        let r = exec_ok(&fx.nx, &stmt, &Value::Object(p)).await?;
        rec.ids.push(r["handles"]["xadd"].as_str().ok_or("no handle for the added assertion")?.to_string());
        asrs.push(x.clone());
        let after_json = ask(fx, &rec, functional, &q).await?.remove(0).1;
        let ctx = || json!({"case": case, "step": step, "law": kind, "multiset_before_addition": case_json(&asrs[..asrs.len() - 1], functional),
            "added": x.desc(), "contributing_assertion": yi, "query": format!("{q:?}"), "before": before_json, "after": after_json});
        let after = match parse_answer(&after_json, &rec) {
            Ok(a) => a,
            Err(e) => {
                st.violation("C20/answer_malformed", json!({"error": e, "context": ctx()}));
                return Ok(());
            }
        };
        st.eval();
        st.count(&format!("add_law_{kind}"));
        laws(&after, &ctx, st);
        let base = if q.policy.name.is_some() { &fx.policies["forecast"] } else { &fx.policies["baseline"] };
        judge(&after, &reference(&asrs, functional, 0, q.at, &pol), &q, &base.id, &base.version, &ctx, st);
        let (g0, g1, s0, s1, og0, og1, os0, os1) = if opposing {
            (before.opp_groups, after.opp_groups, before.opp_score, after.opp_score, before.sup_groups, after.sup_groups, before.sup_score, after.sup_score)
        } else {
            (before.sup_groups, after.sup_groups, before.sup_score, after.sup_score, before.opp_groups, after.opp_groups, before.opp_score, after.opp_score)
        };
        let new_id = rec.ids.len() - 1;
        let joined = if opposing { after.opp.contains(&new_id) } else { after.sup.contains(&new_id) };
        if !joined {
            st.violation("C20/add/eligible_addition_not_in_ledger", ctx());
            continue;
        }
        if og0 != og1 || (os0 - os1).abs() > 1e-12 {
            st.violation("C20/add/other_side_changed", ctx());
        }
        if g1 > g0 {
            st.violation("C20/add/repeat_or_shared_evidence_added_a_group", ctx());
        }
        match kind {
            "repeat_same_actor" | "shared_evidence_new_voice" => {
                if g1 != g0 || (s1 - s0).abs() > 1e-12 {
                    st.violation("C20/add/not_louder_addition_changed_score_or_groups", ctx());
                }
            }
            "louder_repeat" => {
                if g1 != g0 || s1 < s0 - 1e-12 {
                    st.violation("C20/add/raising_a_group_maximum_lowered_the_score", ctx());
                }
                if s1 > s0 + 1e-12 {
                    st.count("add_law_score_rose_with_louder_voice");
                }
            }
            _ => {
                if g1 < g0 {
                    st.count("add_law_bridge_merged_groups");
                }
            }
        }
    }
    Ok(())
}

// ---------------------------------------------------------------------------------------------
// bounded-exhaustive tier

#[derive(Clone)]
struct Alphabet {
    name: &'static str,
    stances: Vec<Stance>,
    confs: Vec<f64>,
    lives: Vec<Life>,
    /// evidence ids in use (subsets of 0..n_ev)
    n_ev: usize,
}

impl Alphabet {
    fn evs(&self) -> usize {
        1 << self.n_ev
    }
    fn size(&self) -> usize {
        3 * self.evs() * self.stances.len() * self.confs.len() * self.lives.len()
    }
    fn decode(&self, t: usize) -> Asr {
        let (l, c, s) = (self.lives.len(), self.confs.len(), self.stances.len());
        let life = self.lives[t % l];
        let conf = self.confs[(t / l) % c];
        let stance = self.stances[(t / l / c) % s];
        let ev = ((t / l / c / s) % self.evs()) as u8;
        let actor = (t / l / c / s / self.evs()) as u8;
        Asr::simple(actor, ev, stance, conf, life)
    }
    fn encode(&self, a: &Asr) -> usize {
        let (l, c, s) = (self.lives.len(), self.confs.len(), self.stances.len());
        let li = self.lives.iter().position(|x| *x == a.life).unwrap();
        let ci = self.confs.iter().position(|x| Some(*x) == a.conf).unwrap();
        let si = self.stances.iter().position(|x| *x == a.stance).unwrap();
        (((a.actor.unwrap() as usize * self.evs() + a.ev as usize) * s + si) * c + ci) * l + li
    }
    /// relabel[k][t]: type t after the k-th of the 36 (actor permutation, evidence permutation)
    fn relabelings(&self) -> Vec<Vec<u16>> {
        let perms = all_orders(3);
        let eperms = all_orders(self.n_ev);
        let mut out = vec![];
        for pa in &perms {
            for pe in &eperms {
                let mut m = vec![0u16; self.size()];
                for t in 0..self.size() {
                    let mut a = self.decode(t);
                    a.actor = Some(pa[a.actor.unwrap() as usize] as u8);
                    let mut ev = 0u8;
                    for e in 0..self.n_ev {
                        if a.ev & (1 << e) != 0 {
                            ev |= 1 << pe[e];
                        }
                    }
                    a.ev = ev;
                    m[t] = self.encode(&a) as u16;
                }
                out.push(m);
            }
        }
        out
    }
}

fn is_canonical(m: &[u16], relab: &[Vec<u16>]) -> bool {
    let mut buf = [0u16; 8];
    for r in relab {
        for (i, t) in m.iter().enumerate() {
            buf[i] = r[*t as usize];
        }
        buf[..m.len()].sort_unstable();
        if buf[..m.len()] < *m {
            return false;
        }
    }
    true
}

/// All distinct arrangements of a sorted multiset.
fn arrangements(m: &[u16]) -> Vec<Vec<u16>> {
    fn rec(rest: &mut Vec<u16>, cur: &mut Vec<u16>, out: &mut Vec<Vec<u16>>) {
        if rest.is_empty() {
            out.push(cur.clone());
            return;
        }
        let mut last = None;
        for i in 0..rest.len() {
            if Some(rest[i]) == last {
                continue;
            }
            last = Some(rest[i]);
            let x = rest.remove(i);
            cur.push(x);
            rec(rest, cur, out);
            cur.pop();
            rest.insert(i, x);
        }
    }
    let mut out = vec![];
    rec(&mut m.to_vec(), &mut vec![], &mut out);
    out
}

const BATCH: usize = 12;

/// Records a batch of arrangements (each under its own subject) with one MUTATE, retracts with a
/// second one, reads all beliefs with one FIND, judges each against the reference.
async fn run_batch(fx: &mut Fixture, alpha: &Alphabet, jobs: &[Vec<u16>], st: &mut Stats) -> Result<(), String> {
    let mut cmd = String::from("MUTATE {\n");
    let mut p = Map::new();
    p.insert("v0".into(), idref(&fx.values[0]));
    for i in 0..3 {
        p.insert(format!("a{i}"), idref(&fx.actors[i]));
        p.insert(format!("e{i}"), idref(&fx.evidence[i]));
    }
    let decoded: Vec<Vec<Asr>> = jobs.iter().map(|j| j.iter().map(|t| alpha.decode(*t as usize)).collect()).collect();
    for (k, asrs) in decoded.iter().enumerate() {
        fx.used += 1;
        cmd.push_str(&format!("CREATE CONCEPT ?s{k} {{ TYPE \"Service\" NAME \"subject {}-{}\" }}\n", fx.serial, fx.used));
        cmd.push_str(&format!("ENSURE PROPOSITION ?p{k} (?s{k}, \"mentions\", :v0)\n"));
        for (i, a) in asrs.iter().enumerate() {
            let ev: Vec<String> = (0..3).filter(|e| a.ev & (1 << e) != 0).map(|e| format!("(\"evidence\", :e{e}) {{role: \"support\"}}")).collect();
            let stx = if ev.is_empty() { String::new() } else { format!(" SET STRUCTURAL {{ {} }}", ev.join(" ")) };
            cmd.push_str(&format!(
                "CREATE ASSERTION ?x{k}_{i} {{ SET FIELDS {{ proposition: ?p{k}, asserted_by: :a{}, stance: \"{}\", mode: \"observed\", confidence: {} }}{stx} }}\n",
                a.actor.unwrap(), a.stance.s(), a.conf.unwrap()
            ));
        }
    }
    cmd.push('}');
    let r = exec_ok(&fx.nx, &cmd, &Value::Object(p)).await?;
    let h = &r["handles"];
    let mut recs = vec![];
    let mut retract = String::from("MUTATE {\n");
    let mut rp = Map::new();
    let mut find = (vec![], String::new(), Map::new());
    for (k, asrs) in decoded.iter().enumerate() {
        let ids: Vec<String> = (0..asrs.len())
            .map(|i| h[format!("x{k}_{i}")].as_str().map(str::to_string).ok_or("missing assertion handle"))
            .collect::<Result<_, _>>()?;
        let prop = h[format!("p{k}")].as_str().ok_or("missing proposition handle")?.to_string();
        for (i, a) in asrs.iter().enumerate() {
            if a.life == Life::Retracted {
                retract.push_str(&format!("RETRACT ASSERTION :r{k}_{i}\n"));
                rp.insert(format!("r{k}_{i}"), json!(ids[i]));
            }
        }
        find.0.push(format!("?b{k}"));
        find.1.push_str(&format!("?b{k} BELIEF (id: :p{k})\n"));
        find.2.insert(format!("p{k}"), json!(prop));
        recs.push(Recorded { subject: String::new(), props: vec![Some(prop), None, None], ids });
    }
    if !rp.is_empty() {
        retract.push('}');
        exec_ok(&fx.nx, &retract, &Value::Object(rp)).await?;
    }
    let out = exec_ok(&fx.nx, &format!("FIND({}) WHERE {{ {} }}", find.0.join(", "), find.1), &Value::Object(find.2)).await?;
    let row = match out.as_array() {
        Some(rows) if rows.len() == 1 => {
            if jobs.len() == 1 { vec![rows[0].clone()] } else { rows[0].as_array().cloned().ok_or("row is not an array")? }
        }
        _ => return Err(format!("batched belief query returned {out}")),
    };
    if row.len() != jobs.len() {
        return Err("batched belief query: wrong number of columns".into());
    }
    let pol = fx.policies["baseline"].clone();
    let q = Query { at: None, spelling: 0, policy: PolicyReq::default(), form: 0 };
    for (k, asrs) in decoded.iter().enumerate() {
        let b = &row[k];
        let ctx = || json!({"tier": "exhaustive", "alphabet": alpha.name, "recorded_in_this_order": case_json(asrs, false), "answer": b});
        match parse_answer(b, &recs[k]) {
            Ok(a) => {
                laws(&a, &ctx, st);
                judge(&a, &reference(asrs, false, 0, None, &pol), &q, &pol.id, &pol.version, &ctx, st);
            }
            Err(e) => st.violation("C20/answer_malformed", json!({"error": e, "context": ctx()})),
        }
        st.count("exhaustive_arrangements");
    }
    Ok(())
}

/// All canonical multisets of exactly `n` types whose smallest type is `t0`.
fn canonical_multisets(alpha: &Alphabet, relab: &[Vec<u16>], n: usize, t0: u16) -> Vec<Vec<u16>> {
    let size = alpha.size() as u16;
    let mut out = vec![];
    if n == 0 {
        return out;
    }
    let mut m = vec![t0; n];
    'outer: loop {
        if is_canonical(&m, relab) {
            out.push(m.clone());
        }
        // next non-decreasing sequence (position 0 fixed)
        let mut i = n;
        loop {
            if i <= 1 {
                break 'outer;
            }
            i -= 1;
            if m[i] + 1 < size {
                let v = m[i] + 1;
                for x in m.iter_mut().skip(i) {
                    *x = v;
                }
                break;
            }
        }
    }
    out
}

/// Enumerates (in parallel) every canonical multiset of size `n` and returns all their distinct
/// arrangements, cut into batches.
fn enumerate_batches(alpha: &Alphabet, n: usize, threads: usize) -> (usize, Vec<Vec<Vec<u16>>>) {
    let relab = alpha.relabelings();
    let size = alpha.size();
    let next = std::sync::atomic::AtomicUsize::new(0);
    let all: std::sync::Mutex<Vec<(u16, Vec<Vec<u16>>)>> = std::sync::Mutex::new(vec![]);
    std::thread::scope(|sc| {
        for _ in 0..threads.max(1) {
            sc.spawn(|| {
                loop {
                    let t0 = next.fetch_add(1, std::sync::atomic::Ordering::Relaxed);
                    if t0 >= size {
                        break;
                    }
                    let ms = canonical_multisets(alpha, &relab, n, t0 as u16);
                    all.lock().unwrap().push((t0 as u16, ms));
                }
            });
        }
    });
    let mut all = all.into_inner().unwrap();
    all.sort_by_key(|(t0, _)| *t0);
    let mut multisets = 0;
    let mut batches: Vec<Vec<Vec<u16>>> = vec![];
    let mut cur: Vec<Vec<u16>> = vec![];
    for (_, ms) in all {
        for m in ms {
            multisets += 1;
            for arr in arrangements(&m) {
                cur.push(arr);
                if cur.len() >= BATCH {
                    batches.push(std::mem::take(&mut cur));
                }
            }
        }
    }
    if !cur.is_empty() {
        batches.push(cur);
    }
    (multisets, batches)
}

// ---------------------------------------------------------------------------------------------
// section `asof`: the projection read at a past coordinate
//
// Several subjects (each with its three value Propositions, asserted or not) share one small Space.
// Every assertion and every lifecycle step is its own commit, interleaved across the subjects. A
// belief read bound to the coordinate of commit c is judged against the reference built from the
// assertions about THAT subject's Propositions that had been recorded up to c, in the lifecycle
// state they had at c. At a coordinate the engine cannot use its present-time indexes, so which
// assertions are "about" a Proposition is decided by another code path than for a read of the
// present.

struct Receipt {
    seq: u64,
    tx: String,
    at: String,
    result: Value,
}

/// Executes a write and returns its receipt (Space sequence, transaction id, commit time).
async fn commit(nx: &CognitiveNexus, cmd: &str, params: &Value) -> Result<Receipt, String> {
    let r = exec(nx, cmd, params).await?;
    let j = response_json(&r);
    if j["status"] != "succeeded" {
        return Err(format!("command failed: {cmd} params={params} -> {j}"));
    }
    Ok(Receipt {
        seq: j["receipt"]["space_seq"].as_u64().ok_or_else(|| format!("no space_seq in the receipt of {cmd}: {}", j["receipt"]))?,
        tx: j["receipt"]["tx_id"].as_str().unwrap_or("").to_string(),
        at: j["receipt"]["committed_at"].as_str().unwrap_or("").to_string(),
        result: j["results"][0]["result"].clone(),
    })
}

struct HCoord {
    seq: u64,
    tx: String,
    at: String,
    /// per subject, per assertion: recorded / lifecycle step applied at this coordinate
    created: Vec<Vec<bool>>,
    applied: Vec<Vec<bool>>,
    token: Option<String>,
    what: String,
}

/// Every assertion id an answer mentions.
fn ids_in_answer(b: &Value) -> Vec<String> {
    let mut v = vec![];
    for l in [&b["support"]["assertion_ids"], &b["opposition"]["assertion_ids"], &b["explanation"]["uncertain_assertions"]] {
        for x in l.as_array().into_iter().flatten() {
            v.extend(x.as_str().map(str::to_string));
        }
    }
    for e in b["explanation"]["excluded"].as_array().into_iter().flatten() {
        v.extend(e["assertion_id"].as_str().map(str::to_string));
    }
    v
}

fn asof_case(case: u64, rng: &mut Rng, st: &mut Stats, thorough: bool) {
    let k = 2 + rng.usize(3);
    let mut subs: Vec<(Vec<Asr>, bool)> = vec![];
    for s in 0..k {
        if s == 0 && rng.bool() {
            // a subject nobody ever says anything about
            subs.push((vec![], rng.bool()));
            continue;
        }
        loop {
            let (a, f) = gen_case(rng);
            if a.len() <= 6 {
                subs.push((a, f));
                break;
            }
        }
    }
    if subs.iter().all(|(a, _)| a.is_empty()) {
        subs[k - 1] = (vec![Asr::simple(0, 0, Stance::Support, 0.8, Life::Active), Asr::simple(1, 0, Stance::Support, 0.6, Life::Active)], false);
    }
    let res = vcore::run::block_on(asof_inner(case, &subs, rng, st, thorough));
    if let Err(e) = res {
        st.inconclusive(format!("C20 asof case {case}: {e}"));
    }
    st.sample(|| json!({"monitor": "asof", "case": case, "subjects": subs.iter().map(|(a, f)| case_json(a, *f)).collect::<Vec<_>>()}));
}

async fn asof_inner(case: u64, subs: &[(Vec<Asr>, bool)], rng: &mut Rng, st: &mut Stats, thorough: bool) -> Result<(), String> {
    // a small Space of its own: a read at a coordinate reconstructs every Assertion of the Space
    let fx = new_fixture().await?;
    let k = subs.len();
    let mut cmd = String::from("MUTATE {\n");
    let mut p = Map::new();
    for v in 0..N_VAL {
        p.insert(format!("v{v}"), idref(&fx.values[v]));
    }
    for (s, (_, functional)) in subs.iter().enumerate() {
        cmd.push_str(&format!("CREATE CONCEPT ?s{s} {{ TYPE \"Service\" NAME \"subject h{case}-{s}\" }}\n"));
        for v in 0..N_VAL {
            cmd.push_str(&format!("ENSURE PROPOSITION ?p{s}_{v} (?s{s}, \"{}\", :v{v})\n", pred(*functional)));
        }
    }
    cmd.push('}');
    let r0 = commit(&fx.nx, &cmd, &Value::Object(p)).await?;
    let handle = |r: &Receipt, name: String| -> Result<String, String> {
        r.result["handles"][&name].as_str().map(str::to_string).ok_or(format!("no handle {name}"))
    };
    let mut subjects = vec![];
    let mut props: Vec<Vec<Option<String>>> = vec![];
    for s in 0..k {
        subjects.push(handle(&r0, format!("s{s}"))?);
        props.push((0..N_VAL).map(|v| handle(&r0, format!("p{s}_{v}")).map(Some)).collect::<Result<_, _>>()?);
    }
    let mut created: Vec<Vec<bool>> = subs.iter().map(|(a, _)| vec![false; a.len()]).collect();
    let mut applied: Vec<Vec<bool>> = created.clone();
    let mut ids: Vec<Vec<String>> = subs.iter().map(|(a, _)| vec![String::new(); a.len()]).collect();
    let mut coords = vec![HCoord { seq: r0.seq, tx: r0.tx.clone(), at: r0.at.clone(), created: created.clone(), applied: applied.clone(), token: None, what: "subjects and propositions created, nothing asserted".into() }];
    // the history: one commit per event
    loop {
        // (subject, assertion, lifecycle step?)
        let mut enabled: Vec<(usize, usize, bool)> = vec![];
        for (s, (asrs, _)) in subs.iter().enumerate() {
            for (i, a) in asrs.iter().enumerate() {
                if !created[s][i] {
                    enabled.push((s, i, false));
                } else if a.life != Life::Active && !applied[s][i] && !matches!(a.life, Life::Superseded(j) if !created[s][j]) {
                    enabled.push((s, i, true));
                }
            }
        }
        if enabled.is_empty() {
            break;
        }
        let (s, i, step) = *rng.pick(&enabled);
        let (asrs, functional) = &subs[s];
        let a = &asrs[i];
        let r = if !step {
            let mut p = Map::new();
            p.insert("s".into(), idref(&subjects[s]));
            p.insert(format!("v{}", a.tgt), idref(&fx.values[a.tgt as usize]));
            p.insert("p".into(), idref(props[s][a.tgt as usize].as_ref().unwrap()));
            let tuple = format!("(:s, \"{}\", :v{})", pred(*functional), a.tgt);
            let stmt = create_stmt(&fx, a, "h", ":p", &tuple, &mut p, rng);
            let r = commit(&fx.nx, &stmt, &Value::Object(p)).await?;
            ids[s][i] = handle(&r, "xh".into())?;
            created[s][i] = true;
            st.count("asof_commits_assertion");
            r
        } else {
            let r = match a.life {
                Life::Retracted => commit(&fx.nx, "RETRACT ASSERTION :a", &json!({"a": ids[s][i]})).await?,
                Life::Superseded(j) => commit(&fx.nx, "SUPERSEDE ASSERTION :old BY :new", &json!({"old": ids[s][i], "new": ids[s][j]})).await?,
                _ => commit(&fx.nx, "ARCHIVE :a", &json!({"a": ids[s][i]})).await?,
            };
            applied[s][i] = true;
            st.count("asof_commits_lifecycle");
            r
        };
        coords.push(HCoord {
            seq: r.seq, tx: r.tx, at: r.at, created: created.clone(), applied: applied.clone(), token: None,
            what: format!("subject {s}: {} #{i} {}", if step { format!("{:?} of", a.life) } else { "recorded".to_string() }, a.desc()),
        });
    }
    // something unrelated happens afterwards, so every coordinate of the case lies in the past
    let r = commit(&fx.nx, &format!("CREATE CONCEPT ?x {{ TYPE \"Person\" NAME \"bystander h{case}\" }}"), &Value::Null).await?;
    coords.push(HCoord { seq: r.seq, tx: r.tx, at: r.at, created: created.clone(), applied: applied.clone(), token: None, what: "an unrelated Concept created".into() });
    if coords.windows(2).any(|w| w[1].seq <= w[0].seq) {
        return Err("commit sequence numbers do not ascend".into());
    }
    let history: Vec<String> = coords.iter().map(|c| format!("seq {}: {}", c.seq, c.what)).collect();

    // the reads
    let n_coords = coords.len();
    let mut chosen: Vec<usize> = (0..n_coords).collect();
    rng.shuffle(&mut chosen);
    chosen.truncate(if thorough { 10 } else { 5 });
    for must in [0, n_coords - 2] {
        if !chosen.contains(&must) {
            chosen.push(must);
        }
    }
    for ci in chosen {
        // AS OF TIME names the last commit at or before the instant: usable when the next commit
        // carries a later timestamp
        let time_unique = !coords[ci].at.is_empty() && coords.get(ci + 1).map(|n| n.at.as_str() > coords[ci].at.as_str()).unwrap_or(true);
        let (c_seq, c_tx, c_at) = (coords[ci].seq, coords[ci].tx.clone(), coords[ci].at.clone());
        for s in 0..k {
            let (asrs, functional) = &subs[s];
            let (model, rec, others_asserted, past_differs) = {
                let c = &coords[ci];
                let members: Vec<usize> = (0..asrs.len()).filter(|i| c.created[s][*i]).collect();
                let model: Vec<Asr> = members.iter().map(|i| Asr { life: if c.applied[s][*i] { asrs[*i].life } else { Life::Active }, ..asrs[*i].clone() }).collect();
                let rec = Recorded { subject: subjects[s].clone(), props: props[s].clone(), ids: members.iter().map(|i| ids[s][*i].clone()).collect() };
                let others_asserted = (0..k).any(|o| o != s && c.created[o].iter().any(|x| *x));
                let past_differs = c.created[s] != created[s] || c.applied[s] != applied[s];
                (model, rec, others_asserted, past_differs)
            };
            let mut reads: Vec<(u8, Query)> = vec![];
            for t in 0..N_VAL as u8 {
                if thorough || rng.chance(2, 3) {
                    let mut q = gen_query(rng);
                    if q.form == 3 {
                        q.form = rng.below(3) as u8;
                    }
                    reads.push((t, q));
                }
            }
            if rng.bool() {
                let mut q = gen_query(rng);
                q.form = 3;
                reads.push((0, q));
            }
            for (t, q) in reads {
                let coord = match rng.weighted(&[25, 15, 20, if time_unique { 20 } else { 0 }, 20]) {
                    0 => Coord::Seq(c_seq),
                    1 => Coord::SeqParam(c_seq),
                    2 => Coord::Tx(c_tx.clone()),
                    3 => Coord::Time(c_at.clone()),
                    _ => {
                        if coords[ci].token.is_none() {
                            let snap = exec_ok(&fx.nx, &format!("SNAPSHOT AS OF SEQ {c_seq}"), &Value::Null).await?;
                            coords[ci].token = Some(snap["snapshot_token"].as_str().ok_or("SNAPSHOT hands out no snapshot_token")?.to_string());
                        }
                        Coord::Token(coords[ci].token.clone().unwrap())
                    }
                };
                if !time_unique {
                    st.count("asof_time_form_unusable_equal_commit_timestamps");
                }
                let pol = expected_policy(&fx, &q.policy);
                let base = match q.policy.name {
                    Some("forecast") | Some("kip:policy:forecast") => &fx.policies["forecast"],
                    _ => &fx.policies["baseline"],
                };
                let answers = match ask_in(&fx.nx, &fx.values, &rec, *functional, &q, t, Some(&coord)).await {
                    Ok(a) => a,
                    Err(e) if e.contains(FOREIGN_SLOT) => {
                        st.violation("C20/asof/slot_lists_proposition_of_another_subject", json!({"case": case, "history": history, "coordinate": format!("{coord:?}"), "subject": s, "error": e}));
                        continue;
                    }
                    Err(e) => return Err(e),
                };
                st.count("asof_reads");
                st.count(&format!("asof_reads_named_by_{}", coord.kind()));
                st.count(&format!("asof_reads_query_form_{}", q.form));
                for (tgt, b) in answers {
                    let ctx = || json!({"case": case, "history": history, "coordinate": {"seq": c_seq, "named_as": format!("{coord:?}")}, "subject": s, "target_value": tgt,
                        "recorded_about_this_subject_at_the_coordinate": case_json(&model, *functional), "query": format!("{q:?}"), "answer": b});
                    st.count("asof_answers");
                    if others_asserted {
                        st.count("asof_answers_with_assertions_about_other_subjects_in_the_space");
                    }
                    if past_differs {
                        st.count("asof_answers_where_the_subject_changed_afterwards");
                    }
                    // a belief at a coordinate is built from assertions about THIS proposition (or a
                    // functional rival) that existed at the coordinate
                    let mut foreign = false;
                    for id in ids_in_answer(&b) {
                        if rec.ids.contains(&id) {
                            continue;
                        }
                        foreign = true;
                        let sig = if ids[s].contains(&id) {
                            "C20/asof/belief_counts_assertion_recorded_after_the_coordinate"
                        } else if ids.iter().any(|l| l.contains(&id)) {
                            "C20/asof/belief_counts_assertion_about_another_subject"
                        } else {
                            "C20/asof/belief_names_unknown_assertion"
                        };
                        st.violation(sig, json!({"assertion": id, "context": ctx()}));
                    }
                    // silence: nothing was ever recorded about this value (nor, for a single-valued
                    // predicate, about a rival value) up to the coordinate
                    let silent = if *functional { model.is_empty() } else { !model.iter().any(|a| a.tgt == tgt) };
                    if silent {
                        st.count("asof_never_asserted_answers");
                        if others_asserted {
                            st.count("asof_never_asserted_answers_while_others_are_asserted");
                        }
                        if b["status"] != "insufficient" {
                            st.violation("C20/asof/never_asserted_proposition_not_insufficient", json!({"status": b["status"], "context": ctx()}));
                            continue;
                        }
                    }
                    if foreign {
                        continue;
                    }
                    let a = match parse_answer(&b, &rec) {
                        Ok(a) => a,
                        Err(e) => {
                            st.violation("C20/answer_malformed", json!({"error": e, "context": ctx()}));
                            continue;
                        }
                    };
                    laws(&a, &ctx, st);
                    let r = reference(&model, *functional, tgt, q.at, &pol);
                    judge(&a, &r, &q, &base.id, &base.version, &ctx, st);
                }
            }
        }
    }
    Ok(())
}

// ---------------------------------------------------------------------------------------------
// section `ingest`: every way an Assertion enters a Space, confidences at and beyond the scale
//
// One structure (actors, evidence, stances, modes, lifecycle) and a chain of confidence vectors
// v0 <= v1 <= ... (pointwise; an assertion is either never given a number or given ascending ones
// drawn from a palette that crosses both ends of [0,1]). Each vector enters a Space through
//   capsule   EXPORT CAPSULE of the structure -> the artifact's `confidence` members rewritten ->
//             capsule::parse -> payload_digest -> import_capsule (another Nexus);
//   isolated  the same through import_capsule_isolated, then every element released;
//   kml       CREATE ASSERTION / ASSERT with the value as literal or parameter.
// A path may refuse a value (counted per class of value). What it lets in is read back
// (`?a.confidence`: the number the Space says the assertion carries, null = none stated) and the
// projection is judged by the laws of the property: scores within [0,1]; the same structure with
// pointwise higher (read-back) confidences never scores lower, and its grouping does not change;
// the same assertions project the same belief whichever path they came by. Where every read-back
// confidence is inside the scale the full reference comparison applies as well.

/// What the artifact / statement carries in the place of the confidence.
#[derive(Clone, Debug, PartialEq)]
enum Raw {
    Absent,
    Null,
    Num(f64),
    Text,
    Bool,
    /// a token that is no finite number (spliced into the artifact / statement text as written)
    Exotic(&'static str),
}

fn raw_class(r: &Raw) -> &'static str {
    match r {
        Raw::Absent => "absent",
        Raw::Null => "null",
        Raw::Text => "string",
        Raw::Bool => "bool",
        Raw::Exotic(_) => "not_a_finite_number",
        Raw::Num(x) if *x < 0.0 => "negative",
        Raw::Num(x) if *x == 0.0 => "zero",
        Raw::Num(x) if *x < 1.0 => "inside",
        Raw::Num(x) if *x == 1.0 => "one",
        Raw::Num(x) if *x <= 1.001 => "just_above_one",
        Raw::Num(x) if *x <= 100.0 => "above_one",
        Raw::Num(_) => "huge",
    }
}

/// Inside the documented scale (or not stated at all): every path has to accept it.
fn raw_in_scale(r: &Raw) -> bool {
    match r {
        Raw::Absent | Raw::Null => true,
        Raw::Num(x) => (0.0..=1.0).contains(x),
        _ => false,
    }
}

const STATED: [f64; 14] = [0.0, 1e-12, 0.2, 0.45, 0.6, 0.8, 0.95, 1.0, 1.0000000000000002, 1.0000001, 1.4, 2.0, 60.0, 1e308];
const STATED_W: [u32; 14] = [6, 2, 8, 8, 10, 10, 6, 12, 5, 5, 12, 10, 4, 2];

fn gen_chain(rng: &mut Rng, len: usize) -> Vec<Raw> {
    match rng.weighted(&[6, 8, 4, 80, 2]) {
        0 => vec![Raw::Absent; len],
        4 => vec![Raw::Exotic(*rng.pick(&["1e400", "-1e400", "NaN", "Infinity"])); len],
        // below the scale: the engine's own sentinel for "none stated" is negative
        1 => (0..len).map(|_| Raw::Num(*rng.pick(&[-1.0, -0.5, -2.0, -1e-9, -60.0]))).collect(),
        2 => vec![[Raw::Null, Raw::Text, Raw::Bool][rng.usize(3)].clone(); len],
        _ => {
            let mut v: Vec<f64> = (0..len).map(|_| STATED[rng.weighted(&STATED_W)]).collect();
            v.sort_by(|a, b| a.partial_cmp(b).unwrap());
            v.into_iter().map(Raw::Num).collect()
        }
    }
}

fn gen_ingest_structure(rng: &mut Rng) -> (Vec<Asr>, bool) {
    let functional = rng.chance(1, 3);
    let n = 2 + rng.usize(4);
    let mut v = vec![];
    for i in 0..n {
        let mut ev = 0u8;
        for e in 0..3 {
            if rng.chance(1, 4) {
                ev |= 1 << e;
            }
        }
        let tgt = if i > 0 && functional && rng.chance(1, 4) { 1 } else { 0 };
        v.push(Asr {
            // the import path requires an assertor
            actor: Some(rng.below(3) as u8),
            ev,
            tgt,
            stance: if tgt == 1 { Stance::Support } else { [Stance::Support, Stance::Reject, Stance::Uncertain][rng.weighted(&[60, 35, 5])] },
            conf: None,
            mode: rng.weighted(&[40, 30, 10, 10, 5, 5]),
            from: None,
            until: None,
            life: if rng.chance(1, 8) { Life::Retracted } else { Life::Active },
            sugar: rng.chance(1, 3),
            challenge: 0,
        });
    }
    (v, functional)
}

/// One multiset as it sits in one Space after one ingestion path.
struct Inst {
    path: &'static str,
    variant: usize,
    /// indexes (into the structure) of the assertions the path let in
    members: Vec<usize>,
    /// the members, `conf` = what the Space reads back
    model: Vec<Asr>,
    rec: Recorded,
    /// per fixed query: the answer about the target value
    answers: Vec<Option<Parsed>>,
}

thread_local! {
    /// the Nexus Capsules are imported into (recycled), with the number of imports so far
    static DEST: RefCell<Option<(CognitiveNexus, usize)>> = const { RefCell::new(None) };
}

/// Status implied by the scores the answer itself reports, under the thresholds of its policy.
fn status_from_reported(a: &Parsed, pol: &PolicyDesc) -> Option<&'static str> {
    for s in [a.sup_score, a.opp_score] {
        if !(0.0..=1.0).contains(&s) {
            return None;
        }
        if (s - pol.accept).abs() < 1e-9 || (s - pol.material).abs() < 1e-9 {
            return None;
        }
    }
    if a.sup.is_empty() && a.opp.is_empty() {
        return None;
    }
    Some(if a.sup_score >= pol.accept && a.opp_score < pol.material {
        "accepted"
    } else if a.opp_score >= pol.accept && a.sup_score < pol.material {
        "rejected"
    } else if a.sup_score >= pol.material && a.opp_score >= pol.material {
        "contested"
    } else {
        "uncertain"
    })
}

/// Reads the instance back and judges its answers; fills `model[..].conf` and `answers`.
#[allow(clippy::too_many_arguments)]
async fn evaluate_instance(
    nx: &CognitiveNexus,
    values: &[String],
    fx: &Fixture,
    inst: &mut Inst,
    functional: bool,
    queries: &[Query],
    case: u64,
    raws: &[Raw],
    st: &mut Stats,
) -> Result<(), String> {
    for (k, a) in inst.model.iter_mut().enumerate() {
        let out = exec_ok(nx, "FIND(?a.confidence) WHERE { ?a ASSERTION {id: :x} }", &json!({"x": inst.rec.ids[k]})).await?;
        let row = out.as_array().filter(|r| r.len() == 1).ok_or_else(|| format!("reading back the confidence of {} returned {out}", inst.rec.ids[k]))?;
        a.conf = row[0].as_f64();
        if !row[0].is_null() && a.conf.is_none() {
            return Err(format!("the confidence of {} reads back as {}", inst.rec.ids[k], row[0]));
        }
        let class = match a.conf {
            None => "none_stated",
            Some(c) if c < 0.0 => "negative",
            Some(c) if c <= 1.0 => "inside_the_scale",
            Some(_) => "above_one",
        };
        st.count(&format!("ingest_{}_reads_back_{class}", inst.path));
    }
    let in_scale = inst.model.iter().all(|a| a.conf.map(|c| (0.0..=1.0).contains(&c)).unwrap_or(true));
    st.count(&format!("ingest_instances_{}", inst.path));
    st.count(if in_scale { "ingest_instances_inside_the_scale" } else { "ingest_instances_with_confidence_outside_the_scale" });
    for q in queries {
        let pol = expected_policy(fx, &q.policy);
        let base = match q.policy.name {
            Some("forecast") | Some("kip:policy:forecast") => &fx.policies["forecast"],
            _ => &fx.policies["baseline"],
        };
        let mut kept = None;
        for (tgt, b) in ask_in(nx, values, &inst.rec, functional, q, 0, None).await? {
            let ctx = || json!({"case": case, "path": inst.path, "variant": inst.variant, "confidences_as_ingested": format!("{raws:?}"),
                "assertions_in_the_space_with_confidence_as_read_back": case_json(&inst.model, functional), "query": format!("{q:?}"), "target_value": tgt, "answer": b});
            let a = match parse_answer(&b, &inst.rec) {
                Ok(a) => a,
                Err(e) => {
                    st.violation("C20/answer_malformed", json!({"error": e, "context": ctx()}));
                    continue;
                }
            };
            st.count("ingest_answers_judged");
            laws(&a, &ctx, st);
            let r = reference(&inst.model, functional, tgt, None, &pol);
            judge_with(&a, &r, q, &base.id, &base.version, &ctx, st, in_scale);
            if !in_scale {
                if let Some(exp) = status_from_reported(&a, &pol) {
                    if exp != a.status {
                        st.violation("C20/ingest/status_inconsistent_with_reported_scores", json!({"expected": exp, "context": ctx()}));
                    }
                }
                // informational: does the score equal the one of the same multiset with every
                // confidence cut to the scale?
                st.count(if (a.sup_score - r.sup_score).abs() <= 1e-9 && (a.opp_score - r.opp_score).abs() <= 1e-9 {
                    "ingest_outside_scale_score_equals_clamped_reference"
                } else {
                    "ingest_outside_scale_score_differs_from_clamped_reference"
                });
            }
            if tgt == 0 {
                kept = Some(a);
            }
        }
        inst.answers.push(kept);
    }
    Ok(())
}

fn restricted(asrs: &[Asr], ids: &[Option<String>]) -> (Vec<usize>, Vec<Asr>, Vec<String>) {
    let members: Vec<usize> = (0..asrs.len()).filter(|i| ids[*i].is_some()).collect();
    (members.clone(), members.iter().map(|i| asrs[*i].clone()).collect(), members.iter().map(|i| ids[*i].clone().unwrap()).collect())
}

/// Rewrites the exported artifact to carry `raws`, seals it, imports it into `dest`.
/// `Ok(None)`: the path refused (counted).
#[allow(clippy::too_many_arguments)]
async fn import_variant(
    fx: &Fixture,
    dest: &CognitiveNexus,
    artifact: &Value,
    src: &Recorded,
    asrs: &[Asr],
    raws: &[Raw],
    path: &'static str,
    variant: usize,
    tag: &str,
    st: &mut Stats,
) -> Result<Option<(Inst, Vec<String>)>, String> {
    let mut art = artifact.clone();
    for a in art["payload"]["records"]["assertions"].as_array_mut().ok_or("the export carries no assertions")? {
        let id = a["id"].as_str().unwrap_or("").to_string();
        let i = src.ids.iter().position(|x| *x == id).ok_or_else(|| format!("the export carries {id}, which is not an assertion of this case"))?;
        let o = a.as_object_mut().ok_or("assertion record is not an object")?;
        match &raws[i] {
            Raw::Absent => {
                o.remove("confidence");
            }
            Raw::Null => {
                o.insert("confidence".into(), Value::Null);
            }
            Raw::Num(x) => {
                o.insert("confidence".into(), json!(x));
            }
            Raw::Text => {
                o.insert("confidence".into(), json!("0.9"));
            }
            Raw::Bool => {
                o.insert("confidence".into(), json!(true));
            }
            Raw::Exotic(_) => {
                o.insert("confidence".into(), json!(format!("@@RAW{i}@@")));
            }
        }
    }
    let mut text = art.to_string();
    for (i, r) in raws.iter().enumerate() {
        if let Raw::Exotic(t) = r {
            text = text.replace(&format!("\"@@RAW{i}@@\""), t);
        }
    }
    for r in raws {
        st.count(&format!("ingest_{path}_attempt_{}", raw_class(r)));
    }
    let all_in_scale = raws.iter().all(raw_in_scale);
    st.count(if all_in_scale { "ingest_capsules_inside_the_scale" } else { "ingest_capsules_with_confidence_outside_the_scale" });
    let mut cap = match anda_cognitive_nexus::capsule::parse(&text) {
        Ok(c) => c,
        Err(e) if all_in_scale => return Err(format!("capsule::parse refuses a rewritten export inside the scale: {}", e.message)),
        Err(_) => {
            st.count(&format!("ingest_{path}_refused_at_parse"));
            for r in raws.iter().filter(|r| matches!(r, Raw::Exotic(_))) {
                st.count(&format!("ingest_{path}_refused_{}", raw_class(r)));
            }
            return Ok(None);
        }
    };
    // every artifact of the run is a different one (an import of the same artifact resolves to
    // the elements of the first)
    cap.payload.extensions.insert("verif".into(), json!(tag));
    cap.integrity.content_digest = anda_cognitive_nexus::capsule::payload_digest(&cap.payload).map_err(|e| format!("payload_digest: {}", e.message))?;
    let rep = if path == "isolated" { dest.import_capsule_isolated(&cap, DEFAULT_SPACE).await } else { dest.import_capsule(&cap, DEFAULT_SPACE).await };
    let rep = match rep {
        Ok(r) => r,
        Err(e) if all_in_scale => return Err(format!("import of a capsule inside the scale failed: {} {}", e.name(), e.message)),
        Err(_) => {
            st.count(&format!("ingest_{path}_refused_at_import"));
            for r in raws.iter().filter(|r| !raw_in_scale(r)) {
                st.count(&format!("ingest_{path}_refused_{}", raw_class(r)));
            }
            return Ok(None);
        }
    };
    st.count(&format!("ingest_{path}_imports"));
    let m = |s: &String| rep.mapping.get(s).cloned();
    let ids: Vec<Option<String>> = src.ids.iter().map(m).collect();
    if ids.iter().any(|x| x.is_none()) {
        st.count("ingest_assertions_not_carried_by_the_export");
    }
    let (members, model, ids) = restricted(asrs, &ids);
    let rec = Recorded {
        subject: m(&src.subject).ok_or("the import maps no subject")?,
        props: src.props.iter().map(|p| p.as_ref().and_then(m)).collect(),
        ids,
    };
    if path == "isolated" {
        // nothing recalls, projects or acts on an isolated import until somebody releases it
        let q = Query { at: None, spelling: 0, policy: PolicyReq::default(), form: 0 };
        match ask_in(dest, &[], &rec, false, &q, 0, None).await {
            Ok(ans) => {
                for (_, b) in ans {
                    st.count("ingest_isolated_read_before_release");
                    let n = [&b["support"]["assertion_ids"], &b["opposition"]["assertion_ids"], &b["explanation"]["uncertain_assertions"]]
                        .iter()
                        .map(|l| l.as_array().map(|x| x.len()).unwrap_or(0))
                        .sum::<usize>();
                    if n > 0 || b["status"] != "insufficient" {
                        st.violation("C20/ingest/quarantined_import_contributes_before_release", json!({"variant": variant, "answer": b}));
                    }
                }
            }
            Err(_) => st.count("ingest_isolated_read_before_release_refused"),
        }
        let session = dest.system_session();
        for d in rep.mapping.values() {
            let id: anda_cognitive_nexus::id::ElementId = d.parse().map_err(|_| format!("identity map holds {d}"))?;
            session.release_quarantine(DEFAULT_SPACE, id).await.map_err(|e| format!("release of {d}: {} {}", e.name(), e.message))?;
        }
    }
    let values: Vec<String> = fx.values.iter().map(|v| m(v).unwrap_or_default()).collect();
    Ok(Some((Inst { path, variant, members, model, rec, answers: vec![] }, values)))
}

/// Records the structure through KML with `raws` as confidences, each assertion its own
/// statement; refused statements are counted and left out of the instance.
async fn kml_variant(fx: &mut Fixture, asrs: &[Asr], functional: bool, raws: &[Raw], variant: usize, rng: &mut Rng, st: &mut Stats) -> Result<Inst, String> {
    fx.used += 1;
    let mut targets: BTreeSet<u8> = asrs.iter().map(|a| a.tgt).collect();
    targets.insert(0);
    let mut cmd = format!("MUTATE {{\nCREATE CONCEPT ?s {{ TYPE \"Service\" NAME \"subject {}-{}\" }}\n", fx.serial, fx.used);
    let mut p = Map::new();
    for t in &targets {
        p.insert(format!("v{t}"), idref(&fx.values[*t as usize]));
        cmd.push_str(&format!("ENSURE PROPOSITION ?p{t} (?s, \"{}\", :v{t})\n", pred(functional)));
    }
    cmd.push('}');
    let r = exec_ok(&fx.nx, &cmd, &Value::Object(p)).await?;
    let subject = r["handles"]["s"].as_str().ok_or("no subject handle")?.to_string();
    let mut props: Vec<Option<String>> = vec![None; N_VAL];
    for t in &targets {
        props[*t as usize] = r["handles"][format!("p{t}")].as_str().map(str::to_string);
    }
    let mut order: Vec<usize> = (0..asrs.len()).collect();
    rng.shuffle(&mut order);
    let mut ids: Vec<Option<String>> = vec![None; asrs.len()];
    for i in order {
        let a = &asrs[i];
        let mut p = Map::new();
        p.insert("s".into(), idref(&subject));
        p.insert(format!("v{}", a.tgt), idref(&fx.values[a.tgt as usize]));
        p.insert("p".into(), idref(props[a.tgt as usize].as_ref().unwrap()));
        let conf = match &raws[i] {
            Raw::Absent => None,
            Raw::Null => Some("null".to_string()),
            Raw::Text => Some("\"0.9\"".to_string()),
            Raw::Bool => Some("true".to_string()),
            Raw::Exotic(t) => Some(t.to_string()),
            Raw::Num(x) => Some(if rng.chance(1, 3) || x.abs() < 1e-6 && *x != 0.0 || x.abs() > 1e15 {
                p.insert("ck".into(), json!(x));
                ":ck".to_string()
            } else {
                format!("{x:?}")
            }),
        };
        let tuple = format!("(:s, \"{}\", :v{})", pred(functional), a.tgt);
        let stmt = create_stmt_with(fx, a, "k", ":p", &tuple, &mut p, rng, conf);
        let class = raw_class(&raws[i]);
        st.count(&format!("ingest_kml_attempt_{class}"));
        // a number inside the scale, or none at all, is what KML is documented to take
        let must_accept = matches!(&raws[i], Raw::Absent) || matches!(&raws[i], Raw::Num(x) if (0.0..=1.0).contains(x));
        let accepted = match exec(&fx.nx, &stmt, &Value::Object(p.clone())).await {
            Ok(resp) => {
                let j = response_json(&resp);
                if j["status"] == "succeeded" {
                    Some(j["results"][0]["result"]["handles"]["xk"].as_str().ok_or("no assertion handle")?.to_string())
                } else if must_accept {
                    return Err(format!("a KML write inside the scale was refused: {stmt} params={} -> {j}", Value::Object(p)));
                } else {
                    None
                }
            }
            Err(e) if must_accept => return Err(format!("{stmt}: {e}")),
            Err(_) => None,
        };
        st.count(&format!("ingest_kml_{}_{class}", if accepted.is_some() { "accepted" } else { "refused" }));
        ids[i] = accepted;
    }
    for (i, a) in asrs.iter().enumerate() {
        if a.life == Life::Retracted {
            if let Some(id) = &ids[i] {
                exec_ok(&fx.nx, "RETRACT ASSERTION :a", &json!({"a": id})).await?;
            }
        }
    }
    let (members, model, ids) = restricted(asrs, &ids);
    Ok(Inst { path: "kml", variant, members, model, rec: Recorded { subject, props, ids }, answers: vec![] })
}

/// The same structure, `b` ingested with pointwise higher confidences than `a`.
fn chain_law(a: &Inst, b: &Inst, case: u64, functional: bool, st: &mut Stats) {
    if a.members != b.members {
        st.count("ingest_chain_pairs_skipped_different_members");
        return;
    }
    let mut rises = false;
    for (x, y) in a.model.iter().zip(&b.model) {
        match (x.conf, y.conf) {
            (None, None) => {}
            (Some(p), Some(q)) if p <= q => rises |= p < q,
            _ => {
                st.count("ingest_chain_pairs_skipped_not_pointwise_comparable");
                return;
            }
        }
    }
    st.eval();
    st.count("ingest_chain_pairs_compared");
    let above = |i: &Inst| i.model.iter().any(|a| a.conf.map(|c| c > 1.0).unwrap_or(false));
    if above(b) {
        st.count("ingest_chain_pairs_reaching_above_one");
    }
    for (pa, pb) in a.answers.iter().zip(&b.answers) {
        let (Some(pa), Some(pb)) = (pa, pb) else { continue };
        let ctx = || json!({"case": case, "path": a.path, "variants": [a.variant, b.variant],
            "lower": {"assertions": case_json(&a.model, functional), "scores": [pa.sup_score, pa.opp_score], "groups": [pa.sup_groups, pa.opp_groups], "status": pa.status},
            "higher": {"assertions": case_json(&b.model, functional), "scores": [pb.sup_score, pb.opp_score], "groups": [pb.sup_groups, pb.opp_groups], "status": pb.status}});
        if above(b) && (pb.sup_groups >= 2 || pb.opp_groups >= 2) {
            st.count("ingest_chain_answers_above_one_with_two_or_more_groups");
        }
        if pa.sup != pb.sup || pa.opp != pb.opp || pa.unc != pb.unc || pa.sup_groups != pb.sup_groups || pa.opp_groups != pb.opp_groups {
            st.violation("C20/ingest/ledger_or_grouping_changed_with_confidences_only", ctx());
            continue;
        }
        if pb.sup_score < pa.sup_score - 1e-12 || pb.opp_score < pa.opp_score - 1e-12 {
            st.violation("C20/ingest/score_fell_when_confidences_rose", ctx());
        } else if !rises && ((pb.sup_score - pa.sup_score).abs() > 1e-12 || (pb.opp_score - pa.opp_score).abs() > 1e-12) {
            st.violation("C20/ingest/score_changed_with_equal_confidences", ctx());
        }
    }
}

/// The same assertions (as read back) in two Spaces, by two paths.
fn cross_path_law(a: &Inst, b: &Inst, case: u64, functional: bool, pol: &[PolicyDesc], st: &mut Stats) {
    if a.members != b.members || a.model.iter().zip(&b.model).any(|(x, y)| x.conf != y.conf) {
        st.count("ingest_cross_path_skipped_different_content");
        return;
    }
    st.eval();
    st.count("ingest_cross_path_compared");
    for (qi, (pa, pb)) in a.answers.iter().zip(&b.answers).enumerate() {
        let (Some(pa), Some(pb)) = (pa, pb) else { continue };
        let near = [pa.sup_score, pa.opp_score, pb.sup_score, pb.opp_score].iter().any(|s| (s - pol[qi].accept).abs() < 1e-9 || (s - pol[qi].material).abs() < 1e-9);
        let same = pa.sup == pb.sup && pa.opp == pb.opp && pa.unc == pb.unc && pa.sup_groups == pb.sup_groups && pa.opp_groups == pb.opp_groups
            && (pa.sup_score - pb.sup_score).abs() <= 1e-9 && (pa.opp_score - pb.opp_score).abs() <= 1e-9
            && (near || pa.status == pb.status) && pa.policy_id == pb.policy_id;
        if !same {
            st.violation("C20/ingest/same_assertions_project_differently_by_ingestion_path", json!({"case": case, "variant": a.variant, "paths": [a.path, b.path],
                "assertions": case_json(&a.model, functional),
                "answers": [{"scores": [pa.sup_score, pa.opp_score], "groups": [pa.sup_groups, pa.opp_groups], "status": pa.status, "support": format!("{:?}", pa.sup), "opposition": format!("{:?}", pa.opp)},
                            {"scores": [pb.sup_score, pb.opp_score], "groups": [pb.sup_groups, pb.opp_groups], "status": pb.status, "support": format!("{:?}", pb.sup), "opposition": format!("{:?}", pb.opp)}]}));
        }
    }
}

fn ingest_case(case: u64, rng: &mut Rng, st: &mut Stats, thorough: bool) {
    let (asrs, functional) = gen_ingest_structure(rng);
    let len = if thorough { 4 } else { 3 };
    let chains: Vec<Vec<Raw>> = asrs.iter().map(|_| gen_chain(rng, len)).collect();
    let res = with_fixture(async |fx: &mut Fixture| {
        let mut dest = match DEST.with(|c| c.borrow_mut().take()) {
            Some(d) if d.1 < 400 => d,
            _ => (fresh_nexus(&format!("c20_dest_{}", NEXUS_SERIAL.fetch_add(1, std::sync::atomic::Ordering::Relaxed))).await?, 0),
        };
        let out = ingest_inner(fx, &mut dest, case, &asrs, functional, &chains, rng, st).await;
        if out.is_ok() {
            DEST.with(|c| *c.borrow_mut() = Some(dest));
        }
        out
    });
    if let Err(e) = res {
        st.inconclusive(format!("C20 ingest case {case}: {e}"));
    }
    st.sample(|| json!({"monitor": "ingest", "case": case, "structure": case_json(&asrs, functional), "confidence_chains": chains.iter().map(|c| format!("{c:?}")).collect::<Vec<_>>()}));
}

#[allow(clippy::too_many_arguments)]
async fn ingest_inner(
    fx: &mut Fixture,
    dest: &mut (CognitiveNexus, usize),
    case: u64,
    asrs: &[Asr],
    functional: bool,
    chains: &[Vec<Raw>],
    rng: &mut Rng,
    st: &mut Stats,
) -> Result<(), String> {
    let n = asrs.len();
    let len = chains[0].len();
    // the source: the structure recorded through KML with a stand-in confidence, then exported
    let stand_in: Vec<Asr> = asrs.iter().map(|a| Asr { conf: Some(0.5), ..a.clone() }).collect();
    let mut order: Vec<usize> = (0..n).collect();
    rng.shuffle(&mut order);
    let batched = rng.bool();
    let src = record(fx, &stand_in, functional, &order, batched, rng, st).await?;
    let artifact = exec_ok(
        &fx.nx,
        &format!("EXPORT CAPSULE ?a WHERE {{ ?p PROPOSITION (:s, \"{}\", ?o) ?a ASSERTION {{proposition: ?p}} }}", pred(functional)),
        &json!({"s": idref(&src.subject)}),
    )
    .await?;
    st.count("ingest_exports");
    let q0 = Query { at: None, spelling: 0, policy: PolicyReq::default(), form: 0 };
    let mut q1 = gen_query(rng);
    q1.at = None;
    q1.form = if functional && rng.bool() { 3 } else { 1 + rng.below(2) as u8 };
    let queries = [q0, q1];
    let pols: Vec<PolicyDesc> = queries.iter().map(|q| expected_policy(fx, &q.policy)).collect();
    let isolated_variant = rng.usize(len);
    let mut by_path: BTreeMap<&'static str, Vec<Inst>> = BTreeMap::new();
    for v in 0..len {
        let raws: Vec<Raw> = (0..n).map(|i| chains[i][v].clone()).collect();
        let mut here: Vec<Inst> = vec![];
        for path in ["capsule", "isolated", "kml"] {
            match path {
                "isolated" if v != isolated_variant => continue,
                "kml" if !rng.chance(2, 3) => continue,
                _ => {}
            }
            if path == "kml" {
                let mut inst = kml_variant(fx, asrs, functional, &raws, v, rng, st).await?;
                evaluate_instance(&fx.nx, &fx.values, fx, &mut inst, functional, &queries, case, &raws, st).await?;
                here.push(inst);
            } else {
                dest.1 += 1;
                let tag = format!("case {case} variant {v} {path} #{}", dest.1);
                if let Some((mut inst, values)) = import_variant(fx, &dest.0, &artifact, &src, asrs, &raws, path, v, &tag, st).await? {
                    evaluate_instance(&dest.0, &values, fx, &mut inst, functional, &queries, case, &raws, st).await?;
                    here.push(inst);
                }
            }
        }
        for i in 1..here.len() {
            cross_path_law(&here[0], &here[i], case, functional, &pols, st);
        }
        for inst in here {
            by_path.entry(inst.path).or_default().push(inst);
        }
    }
    for insts in by_path.values() {
        for w in insts.windows(2) {
            chain_law(&w[0], &w[1], case, functional, st);
        }
    }
    Ok(())
}

// ---------------------------------------------------------------------------------------------
// section `migrate`: the third way in - a KIP 1.x database converted on the first 2.0 start
//
// A database in the 1.x layout (one row per subject/object pair, `metadata.confidence` whatever
// the old deployment put there) is opened by the 2.0 engine; every legacy tuple becomes a
// Proposition plus one imported Assertion. The legacy numbers come from the same palette as in
// `ingest`. Judged: the laws on every projected belief, the reference over the assertions as the
// Space reads them back, and - across the migrated Propositions, which all have the same shape -
// a higher read-back confidence never gives a lower score.

mod v1 {
    use anda_db::schema::{AndaDBSchema, Json};
    use serde::{Deserialize, Serialize};

    /// The 1.x Concept row.
    #[derive(Clone, Debug, Deserialize, Serialize, AndaDBSchema)]
    pub struct V1Concept {
        pub _id: u64,
        #[field_type = "Text"]
        pub r#type: String,
        #[field_type = "Text"]
        pub name: String,
        #[field_type = "Json"]
        pub attributes: Json,
        #[field_type = "Json"]
        pub metadata: Json,
    }

    /// The 1.x Proposition row: one subject, one object, a set of predicates.
    #[derive(Clone, Debug, Deserialize, Serialize, AndaDBSchema)]
    pub struct V1Proposition {
        pub _id: u64,
        #[field_type = "Text"]
        pub subject: String,
        #[field_type = "Text"]
        pub object: String,
        #[field_type = "Json"]
        pub predicates: Json,
        #[field_type = "Json"]
        pub properties: Json,
    }
}

const LEGACY_PREDICATE: &str = "vouches_v1";

fn flush_stamp() -> u64 {
    // only the timestamp a flush is labelled with
    std::time::SystemTime::now().duration_since(std::time::UNIX_EPOCH).map(|d| d.as_millis() as u64).unwrap_or(1)
}

fn migrate_case(case: u64, rng: &mut Rng, st: &mut Stats) {
    let n = 8 + rng.usize(8);
    // (a JSON document cannot carry a token that is no finite number)
    let raws: Vec<Raw> = (0..n).map(|_| gen_chain(rng, 1).remove(0)).map(|r| if matches!(r, Raw::Exotic(_)) { Raw::Num(1e308) } else { r }).collect();
    let authors: Vec<Option<usize>> = (0..n).map(|_| if rng.chance(2, 3) { Some(rng.usize(2)) } else { None }).collect();
    let res = vcore::run::block_on(migrate_inner(case, &raws, &authors, st));
    if let Err(e) = res {
        st.inconclusive(format!("C20 migrate case {case}: {e}"));
    }
    st.sample(|| json!({"monitor": "migrate", "case": case, "legacy_confidences": format!("{raws:?}")}));
}

async fn migrate_inner(case: u64, raws: &[Raw], authors: &[Option<usize>], st: &mut Stats) -> Result<(), String> {
    use anda_db::{collection::CollectionConfig, database::{AndaDB, DBConfig}};
    use anda_cognitive_nexus::schema::{PackageState, SchemaLock, SchemaPackage};
    use std::sync::Arc;
    let e = |what: &str, e: &dyn std::fmt::Debug| format!("{what}: {e:?}");
    let name = format!("c20_v1_{case}_{}", NEXUS_SERIAL.fetch_add(1, std::sync::atomic::Ordering::Relaxed));
    let store = Arc::new(object_store::memory::InMemory::new());
    let config = || DBConfig { name: name.clone(), description: "a KIP 1.x database".to_string(), ..Default::default() };
    {
        let db = AndaDB::connect(store.clone(), config()).await.map_err(|x| e("AndaDB::connect", &x))?;
        let concepts = db
            .open_or_create_collection(
                v1::V1Concept::schema().map_err(|x| e("1.x concept schema", &x))?,
                CollectionConfig { name: "concepts".to_string(), description: "Concept nodes".to_string() },
                async |c| {
                    c.create_btree_index_nx(&["type"]).await?;
                    c.create_btree_index_nx(&["name"]).await?;
                    Ok(())
                },
            )
            .await
            .map_err(|x| e("1.x concepts", &x))?;
        // ids 1, 2: the two authors; 3: the object; 4..: one subject per row
        let mut rows = vec![("Person", "author0".to_string()), ("Person", "author1".to_string()), ("Status", "value".to_string())];
        rows.extend((0..raws.len()).map(|i| ("Service", format!("subject{i}"))));
        for (ty, nm) in rows {
            concepts
                .add_from(&v1::V1Concept { _id: 0, r#type: ty.to_string(), name: nm, attributes: json!({}), metadata: json!({}) })
                .await
                .map_err(|x| e("1.x concept row", &x))?;
        }
        concepts.flush(flush_stamp()).await.map_err(|x| e("flush", &x))?;
        let propositions = db
            .open_or_create_collection(
                v1::V1Proposition::schema().map_err(|x| e("1.x proposition schema", &x))?,
                CollectionConfig { name: "propositions".to_string(), description: "Proposition links".to_string() },
                async |c| {
                    c.create_btree_index_nx(&["subject"]).await?;
                    Ok(())
                },
            )
            .await
            .map_err(|x| e("1.x propositions", &x))?;
        for (i, raw) in raws.iter().enumerate() {
            let mut metadata = Map::new();
            match raw {
                Raw::Absent => {}
                Raw::Null => {
                    metadata.insert("confidence".into(), Value::Null);
                }
                Raw::Num(x) => {
                    metadata.insert("confidence".into(), json!(x));
                }
                Raw::Text => {
                    metadata.insert("confidence".into(), json!("0.9"));
                }
                Raw::Bool => {
                    metadata.insert("confidence".into(), json!(true));
                }
                Raw::Exotic(_) => {}
            }
            if let Some(a) = authors[i] {
                metadata.insert("author".into(), json!(format!("author{a}")));
            }
            st.count(&format!("migrate_attempt_{}", raw_class(raw)));
            propositions
                .add_from(&v1::V1Proposition {
                    _id: 0,
                    subject: format!("C:{}", 4 + i),
                    object: "C:3".to_string(),
                    predicates: json!([LEGACY_PREDICATE]),
                    properties: json!({LEGACY_PREDICATE: {"attributes": {}, "metadata": metadata}}),
                })
                .await
                .map_err(|x| e("1.x proposition row", &x))?;
        }
        propositions.flush(flush_stamp()).await.map_err(|x| e("flush", &x))?;
        db.close().await.map_err(|x| e("close", &x))?;
    }
    // the first 2.0 start over the same store
    let db = AndaDB::connect(store, config()).await.map_err(|x| e("AndaDB::connect (2.0)", &x))?;
    let nx = CognitiveNexus::connect(Arc::new(db)).await.map_err(|x| e("CognitiveNexus::connect over a 1.x layout", &x))?;
    let pkg = SchemaPackage::parse(anda_cognitive_nexus::profiles::COGNITIVE_MEMORY).map_err(|x| e("package parse", &x))?;
    nx.install_package(&pkg, "verif").await.map_err(|x| e("install_package", &x))?;
    let mut lock = SchemaLock::default();
    lock.packages.insert(PROFILE_ID.to_string(), "2.0.0".to_string());
    lock.states.insert(PROFILE_ID.to_string(), PackageState::Active);
    nx.ensure_schema(DEFAULT_SPACE, lock).await.map_err(|x| e("ensure_schema (runs the migration)", &x))?;
    st.count("migrate_databases");
    let baseline = describe_policy(&nx, "baseline").await?;

    // what the Space holds now
    let out = exec_ok(&nx, "FIND(?a.id, ?a.proposition_id, ?a.confidence, ?a.mode, ?a.stance, ?a.asserted_by.id) WHERE { ?a ASSERTION {} }", &Value::Null).await?;
    let mut by_prop: BTreeMap<String, Vec<(String, Asr)>> = BTreeMap::new();
    let mut actors: Vec<String> = vec![];
    for row in out.as_array().ok_or("assertion scan is not an array")? {
        let id = row[0].as_str().ok_or("assertion without id")?.to_string();
        let prop = row[1].as_str().ok_or("assertion without proposition_id")?.to_string();
        if !row[2].is_null() && row[2].as_f64().is_none() {
            return Err(format!("the confidence of {id} reads back as {}", row[2]));
        }
        let mode = mode_index(&row[3]).ok_or_else(|| format!("unknown mode {}", row[3]))?;
        let stance = match row[4].as_str() {
            Some("support") => Stance::Support,
            Some("reject") => Stance::Reject,
            Some("uncertain") => Stance::Uncertain,
            other => return Err(format!("unknown stance {other:?}")),
        };
        let actor = row[5].as_str().ok_or_else(|| format!("migrated assertion {id} names no assertor: {row}"))?.to_string();
        let ai = match actors.iter().position(|a| *a == actor) {
            Some(i) => i,
            None => {
                actors.push(actor);
                actors.len() - 1
            }
        };
        let asr = Asr { actor: Some(ai as u8), ev: 0, tgt: 0, stance, conf: row[2].as_f64(), mode, from: None, until: None, life: Life::Active, sugar: false, challenge: 0 };
        st.count(match asr.conf {
            None => "migrate_reads_back_none_stated",
            Some(c) if c < 0.0 => "migrate_reads_back_negative",
            Some(c) if c <= 1.0 => "migrate_reads_back_inside_the_scale",
            Some(_) => "migrate_reads_back_above_one",
        });
        by_prop.entry(prop).or_default().push((id, asr));
    }
    if by_prop.len() != raws.len() {
        return Err(format!("{} legacy tuples, {} migrated Propositions carry an Assertion", raws.len(), by_prop.len()));
    }
    let q = Query { at: None, spelling: 0, policy: PolicyReq::default(), form: 0 };
    // (read-back confidence, support score) of the Propositions with one supporting assertion
    let mut single: Vec<(f64, f64, String)> = vec![];
    for (prop, list) in &by_prop {
        let model: Vec<Asr> = list.iter().map(|(_, a)| a.clone()).collect();
        let rec = Recorded { subject: String::new(), props: vec![Some(prop.clone()), None, None], ids: list.iter().map(|(i, _)| i.clone()).collect() };
        let in_scale = model.iter().all(|a| a.conf.map(|c| (0.0..=1.0).contains(&c)).unwrap_or(true));
        for (_, b) in ask_in(&nx, &[], &rec, false, &q, 0, None).await? {
            let ctx = || json!({"case": case, "legacy_confidences": format!("{raws:?}"), "proposition": prop, "assertions_as_read_back": case_json(&model, false), "answer": b});
            let a = match parse_answer(&b, &rec) {
                Ok(a) => a,
                Err(e) => {
                    st.violation("C20/answer_malformed", json!({"error": e, "context": ctx()}));
                    continue;
                }
            };
            st.count("migrate_answers_judged");
            laws(&a, &ctx, st);
            judge_with(&a, &reference(&model, false, 0, None, &baseline), &q, &baseline.id, &baseline.version, &ctx, st, in_scale);
            if let [one] = model.as_slice() {
                if one.stance == Stance::Support && a.sup.len() == 1 {
                    if let Some(c) = one.conf.filter(|c| *c >= 0.0) {
                        single.push((c, a.sup_score, prop.clone()));
                    }
                }
            }
        }
    }
    single.sort_by(|a, b| a.0.partial_cmp(&b.0).unwrap());
    for w in single.windows(2) {
        st.eval();
        st.count("migrate_monotone_pairs_compared");
        if w[1].1 < w[0].1 - 1e-12 {
            st.violation("C20/migrate/score_fell_when_confidence_rose", json!({"case": case, "lower": {"proposition": w[0].2, "confidence": w[0].0, "score": w[0].1},
                "higher": {"proposition": w[1].2, "confidence": w[1].0, "score": w[1].1}}));
        }
    }
    Ok(())
}

fn main() {
    let mut run = Run::from_args(
        "C20",
        "exploration",
        "a case is a multiset of assertions about one proposition (+ rival values); non-trivial when >= 2 \
         active side-taking assertions bear on the target (so grouping matters); distinct by content \
         (actors, evidence sets, stances, confidences, modes, windows, lifecycle), not by ids or order",
    );
    run.assume("policy parameters (eligible modes, accept/material thresholds, weight of an unstated confidence, conflict expansion) are taken from the engine's own published description of the policy the answer names (DESCRIBE EPISTEMIC POLICY), not from its source; the specification is silent on the weight of an unstated confidence");
    run.assume("validity windows are treated as from <= t < until; evaluation times that coincide with a window boundary are excluded from the reference comparison (specification silent) and only take part in the permutation oracle");
    run.assume("status is not compared when a score lies within 1e-9 of a threshold (floating-point product order)");
    run.assume("an eligible assertion with stance 'uncertain' and no side-taking assertion: both 'uncertain' and 'insufficient' are accepted");
    run.assume("exclusion reasons are compared by class (retracted / superseded / temporal / mode / visibility), any applicable class is accepted; ineligible assertions about RIVAL values may or may not be listed");
    run.assume("bounded-exhaustive tier enumerates multisets up to renaming of the 3 actors and the 3 evidence ids (the projection only compares them for equality)");
    run.assume("reads AS OF a coordinate: the reference is built from the assertions about the subject's own Propositions recorded up to that commit, in the lifecycle state they had there (an ARCHIVE / RETRACT / SUPERSEDE committed later does not reach back); AS OF TIME is used only where the next commit carries a later millisecond timestamp; without FOR TIME the evaluation time is after the whole validity grid, at the coordinate as now");
    run.assume("a confidence outside [0,1] has no score defined by the property: multisets holding one (only the Capsule import lets a number above 1 in; KML refuses it, the 1.x migration drops it) are judged by the laws only - scores within [0,1], never lower along a chain of pointwise rising read-back confidences, grouping / ledgers / exclusions equal to the reference, status consistent with the reported scores; a negative number is the engine's stored sentinel for 'none stated', reads back as null and is modelled as unstated; the confidence of an assertion is what `?a.confidence` reads back, not what the artifact carried");
    run.assume("an isolated Capsule import contributes nothing to a projection before its elements are released (documented in capsule/merge.rs and nexus.rs); which values an ingestion path refuses is counted, not asserted - except that a number inside [0,1] or no number at all must be accepted");
    let t = run.tier;
    let thorough = t == vcore::Tier::Thorough;
    let (sr, su) = (Stance::Support, Stance::Reject);
    let full = Alphabet { name: "full", stances: vec![sr, su, Stance::Uncertain], confs: vec![0.2, 0.5, 0.8], lives: vec![Life::Active, Life::Retracted], n_ev: 3 };
    let red = Alphabet { name: "reduced", stances: vec![sr, su], confs: vec![0.5, 0.8], lives: vec![Life::Active], n_ev: 3 };
    let mid = Alphabet { name: "two_sided", stances: vec![sr, su], confs: vec![0.5], lives: vec![Life::Active], n_ev: 3 };
    let small = Alphabet { name: "one_sided", stances: vec![sr], confs: vec![0.5], lives: vec![Life::Active], n_ev: 3 };
    let conf = Alphabet { name: "confidences", stances: vec![sr], confs: vec![0.2, 0.5, 0.8], lives: vec![Life::Active], n_ev: 2 };
    let mut plan: Vec<(&Alphabet, usize, f64)> = vec![(&full, 1, 0.2), (&full, 2, 0.4)];
    if thorough {
        plan.extend([(&mid, 3, 0.2), (&conf, 3, 0.2), (&red, 3, 0.3), (&full, 3, 0.7), (&mid, 4, 0.5), (&small, 5, 0.5)]);
    } else {
        plan.extend([(&mid, 3, 0.5), (&conf, 3, 0.7)]);
    }
    // the small sections first (seconds in the quick tier, a bounded share of the thorough budget):
    // the bounded-exhaustive plan and the randomized tier take whatever time is left
    if run.wants("asof") {
        run.parallel("asof", t.pick(64, 1500), 0.1, |c, rng, st| asof_case(c, rng, st, thorough));
    }
    if run.wants("ingest") {
        run.parallel("ingest", t.pick(160, 1500), 0.1, |c, rng, st| ingest_case(c, rng, st, thorough));
    }
    if run.wants("migrate") {
        run.parallel("migrate", t.pick(16, 200), 0.05, |c, rng, st| migrate_case(c, rng, st));
    }
    let mut complete = true;
    if run.wants("exhaustive") {
        // the empty multiset
        let mut st0 = Stats::default();
        if let Err(e) = with_fixture(async |fx: &mut Fixture| run_batch(fx, &full, &[vec![]], &mut st0).await) {
            st0.inconclusive(format!("C20 empty multiset: {e}"));
        }
        run.stats.merge(st0);
        for (alpha, n, frac) in plan {
            let label = format!("ex_{}_{n}", alpha.name);
            let (multisets, batches) = enumerate_batches(alpha, n, run.threads);
            run.stats.add(&format!("exhaustive_multisets_{}_{n}", alpha.name), multisets as u64);
            let ran = run.parallel(&label, batches.len() as u64, frac, |b, _rng, st| {
                let jobs = &batches[b as usize];
                for j in jobs {
                    let dec: Vec<Asr> = j.iter().map(|t| alpha.decode(*t as usize)).collect();
                    if dec.iter().filter(|a| a.life == Life::Active && a.stance != Stance::Uncertain).count() >= 2 {
                        let mut sorted = j.clone();
                        sorted.sort_unstable();
                        st.distinct(vcore::hash_debug(&(alpha.name, sorted)));
                    }
                }
                if let Err(e) = with_fixture(async |fx: &mut Fixture| run_batch(fx, alpha, jobs, st).await) {
                    st.inconclusive(format!("C20 exhaustive batch {b} of {label}: {e}"));
                }
            });
            if ran < batches.len() as u64 {
                complete = false;
            }
        }
        run.exhaustive = Some(complete && run.replay.is_none());
        run.set_extra("exhaustive_scope", json!(if thorough {
            "all multisets (up to actor/evidence renaming) of size <= 3 over 3 actors x 8 evidence subsets x 3 stances x {0.2,0.5,0.8} x {active,retracted}; size 4 over {support,reject} x {0.5} x active; size 5 over support x {0.5} x active; every distinct recording order of each"
        } else {
            "all multisets (up to actor/evidence renaming) of size <= 2 over 3 actors x 8 evidence subsets x 3 stances x {0.2,0.5,0.8} x {active,retracted}; size 3 over 3 actors x 8 evidence subsets x {support,reject} x {0.5} and over 3 actors x 4 evidence subsets x support x {0.2,0.5,0.8}, active only; every distinct recording order of each"
        }));
    }
    if run.wants("random") {
        run.parallel("random", t.pick(400, 40000), 0.95, |c, rng, st| random_case(c, rng, st, thorough));
    }
    for s in ["accepted", "contested", "rejected", "insufficient", "uncertain"] {
        run.floor(&format!("status_{s}"), 50);
    }
    run.floor("ref_comparisons", 5000);
    run.floor("bridge_merging_cases", 100);
    run.floor("hub_cases_merging_three_or_more_groups", 20);
    run.floor("permutations_compared", 1000);
    run.floor("functional_rival_cases", 100);
    run.floor("only_excluded_cases", 50);
    for c in ["retracted", "superseded", "temporal", "mode", "visibility"] {
        run.floor(&format!("excluded_{c}"), 30);
    }
    run.floor("threshold_override_queries", 200);
    for k in ["repeat_same_actor", "shared_evidence_new_voice", "louder_repeat", "bridge"] {
        run.floor(&format!("add_law_{k}"), 5);
    }
    run.floor("add_law_bridge_merged_groups", 1);
    run.floor("query_form_3", 100);
    run.floor("kml_assert_sugar", 100);
    run.floor("kml_create_assertion", 100);
    run.floor("exhaustive_arrangements", 1000);
    // reads bound to a past coordinate
    run.floor("asof_reads", 600);
    for k in ["SEQ", "TX", "TOKEN"] {
        run.floor(&format!("asof_reads_named_by_{k}"), 100);
    }
    // usable only where the next commit carries a later millisecond
    run.floor("asof_reads_named_by_TIME", 30);
    for f in 0..4 {
        run.floor(&format!("asof_reads_query_form_{f}"), 100);
    }
    run.floor("asof_answers_with_assertions_about_other_subjects_in_the_space", 600);
    run.floor("asof_never_asserted_answers_while_others_are_asserted", 300);
    run.floor("asof_answers_where_the_subject_changed_afterwards", 400);
    run.floor("asof_commits_lifecycle", 30);
    // ingestion paths x confidences at and beyond the scale
    run.floor("ingest_instances_capsule", 150);
    run.floor("ingest_instances_isolated", 40);
    run.floor("ingest_instances_kml", 100);
    run.floor("ingest_isolated_read_before_release", 40);
    run.floor("ingest_instances_with_confidence_outside_the_scale", 100);
    run.floor("ingest_chain_pairs_compared", 100);
    run.floor("ingest_chain_pairs_reaching_above_one", 60);
    run.floor("ingest_chain_answers_above_one_with_two_or_more_groups", 40);
    run.floor("ingest_cross_path_compared", 80);
    for (class, min) in [("zero", 15), ("one", 40), ("just_above_one", 30), ("above_one", 80), ("huge", 3), ("negative", 30), ("absent", 20)] {
        run.floor(&format!("ingest_capsule_attempt_{class}"), min);
    }
    run.floor("ingest_capsule_attempt_not_a_finite_number", 3);
    run.floor("ingest_kml_attempt_above_one", 50);
    run.floor("ingest_kml_attempt_just_above_one", 20);
    run.floor("ingest_kml_attempt_negative", 20);
    run.floor("migrate_databases", 5);
    run.floor("migrate_answers_judged", 50);
    run.floor("migrate_monotone_pairs_compared", 20);
    run.floor("migrate_attempt_above_one", 8);
    run.finish();
}

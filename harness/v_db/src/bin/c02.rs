//! C02 - Every index answers exactly from the stored documents.
//! Seeded histories over fixture F (add/update/remove/flush/compact/extension/reconcile/
//! reopen with index create+backfill and index removal, rejected operations mixed in); after
//! EVERY operation the full bidirectional audit (v_db::audit) runs through the public API.
//! The crash-point quantifier of C02 is covered by C01, which runs the same audit on every
//! recovered state.

use std::sync::Arc;
use v_db::audit::{AuditCtx, audit};
use v_db::driver::{Driver, GenCfg, Op, Step, gen_op};
use v_db::{Cfg, IndexSet};
use vcore::recstore::RecStore;
use vcore::run::block_on;
use vcore::{Rng, Run, Stats, json};

fn case(case: u64, rng: &mut Rng, st: &mut Stats, n_ops: usize) {
    let cfg = Cfg::random(rng);
    let contention = *rng.pick(&[4u64, 8, 12, 30]);
    let set0 = if rng.chance(3, 4) { IndexSet::ALL } else { IndexSet(rng.below(512) as u16) };
    let store = RecStore::new();
    store.set_record_reads(false);
    block_on(async {
        let mut d = match Driver::start(Arc::new(store.clone()), cfg, set0).await {
            Ok(d) => d,
            Err(e) => {
                st.violation("C02/setup_failed", json!({"error": format!("{e:?}"), "cfg": format!("{cfg:?}")}));
                return;
            }
        };
        let g = GenCfg { contention, ..Default::default() };
        let mut kinds = std::collections::BTreeSet::new();
        let mut rejected = 0;
        let mut audits_after_reject = 0;
        for _ in 0..n_ops {
            let op = gen_op(rng, &d.model, d.set, &g);
            kinds.insert(op.kind());
            let step = d.step(&op, st).await;
            match step {
                Step::Applied => {}
                Step::Rejected(_) => {
                    rejected += 1;
                    audits_after_reject += 1;
                }
                Step::Failed(e) => {
                    st.violation("C02/storage_error_without_fault", json!({"error": e, "context": d.ctx()}));
                    return;
                }
                Step::Wrong(sig, detail) => {
                    st.violation(format!("C02/{sig}"), json!({"detail": detail, "case": case, "context": d.ctx()}));
                    return;
                }
            }
            if matches!(op, Op::Reopen(_)) {
                st.count("audits_after_reopen");
            }
            let ctx = d.ctx();
            let ok = audit(&d.coll, &d.model, d.set, st, &AuditCtx { sig: "C02", ctx: &|| json!({"case": case, "driver": ctx.clone()}) }).await;
            if !ok {
                return;
            }
            if let Some(m) = d.ext_mismatch() {
                st.violation("C02/extension_mismatch", json!({"detail": m, "context": d.ctx()}));
                return;
            }
            st.eval();
        }
        st.add("audits_after_rejected_op", audits_after_reject);
        let has = |k: &str| kinds.contains(k);
        if has("update") && has("remove") && has("reopen") && rejected > 0 {
            st.distinct(vcore::fnv_str(&d.history.join(";")));
        }
        st.set("index_sets", d.set.0 as u64);
        st.sample(|| json!({"cfg": format!("{cfg:?}"), "contention": contention, "ops": d.history.iter().take(10).collect::<Vec<_>>(),
                            "final_docs": d.model.docs.len()}));
    });
}

fn main() {
    let mut run = Run::from_args(
        "C02",
        "exploration",
        "seeded operation histories (25-40 ops) over fixture F; one evaluation = one operation followed by the \
         full index<->document audit; a history is non-trivial when it contains an update, a remove, a rejected \
         operation and a reopen; distinct by operation sequence",
    );
    run.assume("HNSW reachability of every live vector is statistical and is counted, not asserted; soundness (only live ids that carry a vector, one entry per such document) is asserted");
    run.assume("expected index content is derived from the model with the documented rules: Null skipped, arrays and map keys expanded, composite key = canonical CBOR of Some(field) concatenated");
    let t = run.tier;
    if run.wants("crash") {
        // "... and after recovery from every crash point of C01": the C01 crash machinery (every
        // prefix of the recorded mutation log, nested crashes inside recovery, failed calls) with
        // this property's audit as the judge of every recovered state
        v_db::crash::set_prefix("C02/crash");
        v_db::crash::set_deadline_in(run.time_left().mul_f64(0.35));
        run.parallel("crash", t.pick(64, 800), 0.3, |c, rng, st| v_db::crash::case(c, rng, st, t));
    }
    if run.wants("histories") {
        run.parallel("histories", t.pick(6000, 400000), 0.95, |c, rng, st| case(c, rng, st, 25 + (c % 16) as usize));
    }
    run.floor("audits", 2000);
    run.floor("recovered_states_audited", 500);
    run.floor("audits_after_rejected_op", 100);
    run.floor("audits_after_reopen", 50);
    run.floor("oracle_btree_eq", 10000);
    run.floor("oracle_bm25_term", 5000);
    run.floor("oracle_hnsw_search", 1000);
    run.floor("op:update", 500);
    run.floor("op:remove", 300);
    run.floor("op:compact_btree", 20);
    run.finish();
}

//! C10 under Miri (UB detector + data-race detector + randomized weak-memory scheduler).
//!
//! usage: `c10_miri <seed> [rounds]`, run through
//! `MIRIFLAGS="-Zmiri-disable-isolation -Zmiri-many-seeds=0..8" cargo +nightly miri run -p v_miri --bin c10_miri -- <seed>`.
//!
//! One process = a few rounds. A round builds a real `BTreeIndex<u64,u64>` with the minimum
//! `bucket_overload_size` (64: almost every insert splits / migrates a bucket), prefills it, then
//! 2-3 OS threads run short scripts (insert / remove / insert_array / remove_array / batch_update /
//! compact_buckets / point, range and key reads) with seeded yields at the `verif_point!` hooks.
//!
//! The scripts are built so that every asserted outcome is independent of the schedule:
//!   * mode `shared` (non-unique index): every thread owns its primary keys but all threads use
//!     the same field values, i.e. the same postings, btree keys and buckets. Only the owner ever
//!     touches a `(pk, key)` pair, so each return value equals the owner's sequential model, a
//!     point read (and every key an ordered scan delivers) filtered to the reader's own pks equals
//!     the reader's model at any time, and the final multimap is exactly the union of the
//!     per-thread models;
//!   * mode `owned` (unique index): every thread owns its pks *and* its field values (the
//!     uniqueness verdicts are then sequential per thread) while the postings of all threads
//!     still share buckets, the btree set and the metadata.
//! After the join: `verif_check_invariants()`, content == union model, flush through the callback
//! API into an in-memory object map, `load_all`, content == memory; then (shared mode) a sequential
//! follow-up (remove, insert, compact, insert_array), an incremental flush and a second reload.
//! Round 0 runs mode `shared`, round 1 mode `owned` (default: 2 rounds per process).
//!
//! Output: one line `MIRI-C10 done seed=.. threads=.. ops=.. invariant_checks=..
//! model_comparisons=.. reloads=.. ...` (exit 0) or `MIRI-C10 violation <what>` (exit 1).
//! Flush is never run concurrently with mutations (documented caller contract).

use anda_db_btree::{BTreeConfig, BTreeError, BTreeIndex, BucketObject, RangeQuery};
use std::collections::{BTreeMap, BTreeSet, HashMap};
use std::sync::Arc;
use vcore::Rng;
use vcore::manual::drive;

type Model = BTreeMap<u64, BTreeSet<u64>>;
type Idx = BTreeIndex<u64, u64>;

/// Field values: CBOR width boundaries (23/24, 255/256, 65535/65536) and an extreme, so that the
/// size accounting that drives bucket splits sees every integer width.
const KEYS: [u64; 8] = [1, 23, 24, 255, 256, 65536, 1 << 32, u64::MAX];

#[derive(Clone, Debug)]
enum Op {
    Insert(u64, u64),
    Remove(u64, u64),
    InsertArray(u64, Vec<u64>),
    RemoveArray(u64, Vec<u64>),
    BatchUpdate(u64, Vec<u64>, Vec<u64>),
    Compact,
    /// point read of one key
    Query(u64),
    /// `keys(None, None)` + `range_query_with(Ge(key))`
    Scan(u64),
}

#[derive(Debug, Clone, PartialEq)]
enum Ret {
    Bool(bool),
    Count(usize),
    Pair(usize, usize),
    Err(String),
    Unit,
}

/// Sequential reference semantics (same as the native C10 monitor).
fn model_apply(m: &mut Model, unique: bool, op: &Op) -> Ret {
    let conflict = |m: &Model, pk: u64, k: &u64| -> bool {
        unique && m.get(k).map(|s| !s.contains(&pk) && !s.is_empty()).unwrap_or(false)
    };
    match op {
        Op::Insert(pk, k) => {
            if conflict(m, *pk, k) {
                return Ret::Err("AlreadyExists".into());
            }
            Ret::Bool(m.entry(*k).or_default().insert(*pk))
        }
        Op::Remove(pk, k) => {
            let mut removed = false;
            if let Some(s) = m.get_mut(k) {
                removed = s.remove(pk);
                if s.is_empty() {
                    m.remove(k);
                }
            }
            Ret::Bool(removed)
        }
        Op::InsertArray(pk, ks) => {
            if ks.iter().any(|k| conflict(m, *pk, k)) {
                return Ret::Err("AlreadyExists".into());
            }
            let mut n = 0;
            for k in ks {
                if m.entry(*k).or_default().insert(*pk) {
                    n += 1;
                }
            }
            Ret::Count(n)
        }
        Op::RemoveArray(pk, ks) => {
            let mut n = 0;
            for k in ks {
                if let Some(s) = m.get_mut(k) {
                    if s.remove(pk) {
                        n += 1;
                    }
                    if s.is_empty() {
                        m.remove(k);
                    }
                }
            }
            Ret::Count(n)
        }
        Op::BatchUpdate(pk, old, new) => {
            let olds: BTreeSet<u64> = old.iter().copied().collect();
            let news: BTreeSet<u64> = new.iter().copied().collect();
            let to_insert: Vec<u64> = news.difference(&olds).copied().collect();
            let to_remove: Vec<u64> = olds.difference(&news).copied().collect();
            let mut ins = 0;
            if !to_insert.is_empty() {
                match model_apply(m, unique, &Op::InsertArray(*pk, to_insert)) {
                    Ret::Count(n) => ins = n,
                    e => return e,
                }
            }
            let mut rem = 0;
            if !to_remove.is_empty()
                && let Ret::Count(n) = model_apply(m, unique, &Op::RemoveArray(*pk, to_remove))
            {
                rem = n;
            }
            Ret::Pair(rem, ins)
        }
        Op::Compact | Op::Query(_) | Op::Scan(_) => Ret::Unit,
    }
}

fn index_apply(idx: &Idx, op: &Op, now: u64) -> Ret {
    let e = |e: BTreeError| -> Ret {
        match e {
            BTreeError::AlreadyExists { .. } => Ret::Err("AlreadyExists".into()),
            other => Ret::Err(format!("{other:?}")),
        }
    };
    match op {
        Op::Insert(pk, k) => idx.insert(*pk, *k, now).map(Ret::Bool).unwrap_or_else(e),
        Op::Remove(pk, k) => Ret::Bool(idx.remove(*pk, *k, now)),
        Op::InsertArray(pk, ks) => idx.insert_array(*pk, ks.clone(), now).map(Ret::Count).unwrap_or_else(e),
        Op::RemoveArray(pk, ks) => Ret::Count(idx.remove_array(*pk, ks.clone(), now)),
        Op::BatchUpdate(pk, old, new) => idx
            .batch_update(*pk, old.clone(), new.clone(), now)
            .map(|(r, i)| Ret::Pair(r, i))
            .unwrap_or_else(e),
        Op::Compact => {
            idx.compact_buckets();
            Ret::Unit
        }
        Op::Query(_) | Op::Scan(_) => Ret::Unit,
    }
}

fn content(idx: &Idx) -> Model {
    let mut m = Model::new();
    for k in idx.keys(None, None) {
        let ids = idx.query_with(&k, |ids| Some(ids.clone())).unwrap_or_default();
        m.insert(k, ids.into_iter().collect());
    }
    m
}

// ---------------------------------------------------------------------------------------------
// persistence through the callback API into an in-memory object map

#[derive(Default)]
struct Disk {
    objects: HashMap<(u32, u64), Vec<u8>>,
    meta: Option<Vec<u8>>,
    bucket_writes: u64,
}

fn flush(idx: &Idx, disk: &mut Disk, now: u64) -> Result<bool, String> {
    let cell = std::cell::RefCell::new(disk);
    let r = drive(idx.flush_owned_with(
        now,
        |data: Vec<u8>| {
            cell.borrow_mut().meta = Some(data);
            async move { Ok(()) }
        },
        |obj: BucketObject, data: Vec<u8>| {
            let mut d = cell.borrow_mut();
            d.objects.insert((obj.bucket_id, obj.generation), data);
            d.bucket_writes += 1;
            async move { Ok(()) }
        },
    ));
    match r {
        Ok(out) => {
            // the documented caller duty: delete the replaced objects (best effort)
            for o in &out.obsolete {
                cell.borrow_mut().objects.remove(&(o.bucket_id, o.generation));
            }
            Ok(out.saved)
        }
        Err(e) => Err(format!("{e:?}")),
    }
}

fn load(disk: &Disk) -> Result<Idx, String> {
    let Some(meta) = &disk.meta else {
        return Err("no metadata object was written".into());
    };
    drive(Idx::load_all(&meta[..], async |o: BucketObject| {
        Ok(disk.objects.get(&(o.bucket_id, o.generation)).cloned())
    }))
    .map_err(|e| format!("{e:?}"))
}

// ---------------------------------------------------------------------------------------------
// scripts

fn gen_keys(rng: &mut Rng, keys: &[u64], max: usize) -> Vec<u64> {
    let mut ks: Vec<u64> = (0..1 + rng.usize(max)).map(|_| *rng.pick(keys)).collect();
    ks.sort_unstable();
    ks.dedup();
    ks
}

fn gen_script(rng: &mut Rng, keys: &[u64], pks: &[u64], len: usize, init: &Model, unique: bool) -> Vec<Op> {
    let mut m = init.clone();
    let mut out = vec![];
    for _ in 0..len {
        let op = match rng.weighted(&[30, 22, 12, 8, 6, 8, 8, 6]) {
            0 => {
                // mostly a key the thread holds nothing under: likely a brand-new posting
                let absent: Vec<u64> = keys.iter().copied().filter(|k| !m.contains_key(k)).collect();
                let k = if !absent.is_empty() && rng.chance(3, 5) { *rng.pick(&absent) } else { *rng.pick(keys) };
                Op::Insert(*rng.pick(pks), k)
            }
            1 => {
                // mostly remove something that is there (so that postings empty out and keys go)
                let present: Vec<(u64, u64)> =
                    m.iter().flat_map(|(k, s)| s.iter().map(|pk| (*pk, *k))).collect();
                if !present.is_empty() && rng.chance(4, 5) {
                    let (pk, k) = *rng.pick(&present);
                    Op::Remove(pk, k)
                } else {
                    Op::Remove(*rng.pick(pks), *rng.pick(keys))
                }
            }
            2 => Op::InsertArray(*rng.pick(pks), gen_keys(rng, keys, 3)),
            3 => Op::RemoveArray(*rng.pick(pks), gen_keys(rng, keys, 3)),
            4 => {
                let pk = *rng.pick(pks);
                let old: Vec<u64> = m.iter().filter(|(_, s)| s.contains(&pk)).map(|(k, _)| *k).collect();
                Op::BatchUpdate(pk, old, gen_keys(rng, keys, 3))
            }
            5 => Op::Compact,
            6 => Op::Query(*rng.pick(keys)),
            _ => Op::Scan(*rng.pick(keys)),
        };
        model_apply(&mut m, unique, &op);
        out.push(op);
    }
    out
}

struct ThreadOut {
    model: Model,
    comparisons: u64,
    hook_points: u64,
    compactions: u64,
    /// own keys transiently missing from an ordered scan (see `Op::Scan`)
    scan_gaps: u64,
}

/// Runs one script against the shared index; compares every schedule-independent observation
/// with the thread's own sequential model.
fn run_thread(
    t: usize,
    idx: &Idx,
    script: &[Op],
    init: Model,
    own_pks: &[u64],
    unique: bool,
    stress_seed: u64,
) -> Result<ThreadOut, String> {
    vcore::sched::start_tag_log();
    vcore::sched::enable_stress(stress_seed, 2);
    let mut m = init;
    let mut comparisons = 0u64;
    let mut compactions = 0u64;
    let mut scan_gaps = 0u64;
    let own = |ids: &[u64]| -> BTreeSet<u64> { ids.iter().copied().filter(|p| own_pks.contains(p)).collect() };
    for (i, op) in script.iter().enumerate() {
        let ctx = |what: String| format!("thread {t} op #{i} {op:?}: {what}");
        match op {
            Op::Query(k) => {
                let got = idx.query_with(k, |ids| Some(ids.clone())).unwrap_or_default();
                let exp = m.get(k).cloned().unwrap_or_default();
                if own(&got) != exp {
                    return Err(ctx(format!("point read shows own pks {:?}, model {exp:?}", own(&got))));
                }
                let mut sorted = got.clone();
                sorted.sort_unstable();
                sorted.dedup();
                if sorted.len() != got.len() {
                    return Err(ctx(format!("posting lists a pk twice: {got:?}")));
                }
                comparisons += 1;
            }
            Op::Scan(k0) => {
                let ks = idx.keys(None, None);
                if !ks.windows(2).all(|w| w[0] < w[1]) {
                    return Err(ctx(format!("keys() not strictly ascending: {ks:?}")));
                }
                // Not asserted: "every key that holds an own pk is listed". A completed insert that
                // appended to a posting which ANOTHER thread is still creating (posting published,
                // btree key not yet inserted) is invisible to ordered scans until that other insert
                // finishes; the property speaks about quiescent content only. Counted instead.
                scan_gaps += m.keys().filter(|k| !ks.contains(k)).count() as u64;
                let rows: Vec<(u64, Vec<u64>)> =
                    idx.range_query_with(RangeQuery::Ge(*k0), |k, ids| (true, vec![(*k, ids.clone())]));
                if !rows.windows(2).all(|w| w[0].0 < w[1].0) || rows.iter().any(|(k, _)| k < k0) {
                    return Err(ctx(format!("range Ge({k0}) delivered {:?}", rows.iter().map(|r| r.0).collect::<Vec<_>>())));
                }
                // every delivered key shows exactly the own pks of the model (the id list comes
                // from the posting, which only the owner changes for its pks)
                for (k, ids) in &rows {
                    let exp = m.get(k).cloned().unwrap_or_default();
                    if own(ids) != exp {
                        return Err(ctx(format!("range Ge({k0}) shows own pks {:?} under key {k}, model {exp:?}", own(ids))));
                    }
                }
                scan_gaps += m.range(*k0..).filter(|(k, _)| !rows.iter().any(|r| r.0 == **k)).count() as u64;
                comparisons += 2;
            }
            _ => {
                let got = index_apply(idx, op, 2);
                let exp = model_apply(&mut m, unique, op);
                if matches!(op, Op::Compact) {
                    compactions += 1;
                } else {
                    if got != exp {
                        return Err(ctx(format!("returned {got:?}, sequential model of the owner says {exp:?}")));
                    }
                    comparisons += 1;
                }
            }
        }
    }
    vcore::sched::disable_stress();
    let hook_points = vcore::sched::take_tag_log().len() as u64;
    Ok(ThreadOut { model: m, comparisons, hook_points, compactions, scan_gaps })
}

#[derive(Default)]
struct Totals {
    threads: u64,
    ops: u64,
    invariant_checks: u64,
    model_comparisons: u64,
    reloads: u64,
    rounds: u64,
    hook_points: u64,
    compactions: u64,
    scan_gaps: u64,
    bucket_objects: u64,
    max_bucket_id: u64,
    final_pairs: u64,
}

fn check_against(what: &str, idx: &Idx, model: &Model, tot: &mut Totals) -> Result<(), String> {
    idx.verif_check_invariants().map_err(|e| format!("{what}: invariant broken: {e}"))?;
    tot.invariant_checks += 1;
    let got = content(idx);
    if &got != model {
        return Err(format!("{what}: content {got:?} differs from the model {model:?}"));
    }
    if idx.len() != model.len() {
        return Err(format!("{what}: len() = {} but the model has {} keys", idx.len(), model.len()));
    }
    tot.model_comparisons += 1;
    Ok(())
}

fn progress(t0: std::time::Instant, what: &str) {
    if std::env::var_os("MIRI_PROGRESS").is_some() {
        eprintln!("  [{:7.2}s] {what}", t0.elapsed().as_secs_f64());
    }
}

fn round(seed: u64, round: u64, tot: &mut Totals) -> Result<(), String> {
    let t0 = std::time::Instant::now();
    let mut rng = Rng::derive(seed ^ 0x4d31_3043, round);
    // even rounds: shared postings on a non-unique index; odd rounds: owned keys on a unique index
    let unique = round % 2 == 1;
    let n_threads = if rng.chance(1, 3) { 3 } else { 2 };
    let per_thread = if n_threads == 3 { 8 } else { 12 };
    let mode = if unique { "owned" } else { "shared" };
    // key / pk ownership
    let mut keysets: Vec<Vec<u64>> = vec![];
    let mut pksets: Vec<Vec<u64>> = vec![];
    for t in 0..n_threads {
        if unique {
            // interleaved ownership: neighbours in the btree belong to different threads
            keysets.push(KEYS.iter().copied().enumerate().filter(|(i, _)| i % n_threads == t).map(|(_, k)| k).collect());
        } else {
            // every thread works on the same postings: 7 of the 8 keys each, so that postings are
            // sparse enough to be created and emptied all the time (new postings are what a
            // concurrent compaction can lose)
            let mut ks = KEYS.to_vec();
            ks.remove(rng.usize(KEYS.len()));
            keysets.push(ks);
        }
        // pk widths differ per thread (1, 2 and 3 byte CBOR integers)
        let base = [10u64, 200, 70_000][t];
        pksets.push((0..4).map(|j| base + j).collect());
    }
    let idx: Arc<Idx> = Arc::new(BTreeIndex::new(
        "c10_miri".to_string(),
        Some(BTreeConfig { bucket_overload_size: 64, allow_duplicates: !unique }),
    ));
    // sequential prefill (also creates more than one bucket, so a compaction has work to do)
    let mut inits: Vec<Model> = vec![Model::new(); n_threads];
    let n_prefill = 6 + rng.usize(4);
    for _ in 0..n_prefill {
        let t = rng.usize(n_threads);
        let op = Op::Insert(*rng.pick(&pksets[t]), *rng.pick(&keysets[t]));
        let got = index_apply(&idx, &op, 1);
        let exp = model_apply(&mut inits[t], unique, &op);
        if got != exp {
            return Err(format!("round {round} ({mode}) prefill {op:?}: returned {got:?}, model {exp:?}"));
        }
        tot.ops += 1;
        tot.model_comparisons += 1;
    }
    progress(t0, "prefilled");
    let mut scripts: Vec<Vec<Op>> = (0..n_threads)
        .map(|t| gen_script(&mut rng, &keysets[t], &pksets[t], per_thread, &inits[t], unique))
        .collect();
    // at least one compaction runs in the middle of somebody's script
    {
        let t = rng.usize(n_threads);
        let pos = 2 + rng.usize(per_thread - 4);
        scripts[t][pos] = Op::Compact;
    }
    let stress = rng.next_u64();
    let mut outs: Vec<Result<ThreadOut, String>> = vec![];
    std::thread::scope(|s| {
        let hs: Vec<_> = (0..n_threads)
            .map(|t| {
                let (idx, script, init, pks) = (idx.clone(), &scripts[t], inits[t].clone(), &pksets[t]);
                s.spawn(move || run_thread(t, &idx, script, init, pks, unique, stress ^ ((t as u64) << 8)))
            })
            .collect();
        for h in hs {
            outs.push(h.join().unwrap_or_else(|_| Err("a script thread panicked".into())));
        }
    });
    progress(t0, "threads joined");
    tot.threads += n_threads as u64;
    let mut model = Model::new();
    for (t, o) in outs.into_iter().enumerate() {
        let o = o.map_err(|e| format!("round {round} ({mode}, {n_threads} threads): {e}; scripts {scripts:?}"))?;
        tot.ops += scripts[t].len() as u64;
        tot.model_comparisons += o.comparisons;
        tot.hook_points += o.hook_points;
        tot.compactions += o.compactions;
        tot.scan_gaps += o.scan_gaps;
        for (k, s) in o.model {
            model.entry(k).or_default().extend(s);
        }
    }
    let ctx = |e: String| format!("round {round} ({mode}, {n_threads} threads): {e}; scripts {scripts:?}");
    if unique && let Some((k, s)) = model.iter().find(|(_, s)| s.len() > 1) {
        return Err(ctx(format!("harness: the owned-key model holds {s:?} under unique key {k}")));
    }
    // quiescent: structure, content, persistence
    check_against("after join", &idx, &model, tot).map_err(ctx)?;
    progress(t0, "checked after join");
    tot.max_bucket_id = tot.max_bucket_id.max(idx.stats().max_bucket_id as u64);
    let mut disk = Disk::default();
    flush(&idx, &mut disk, 3).map_err(|e| ctx(format!("flush failed: {e}")))?;
    let loaded = load(&disk).map_err(|e| ctx(format!("load_all failed: {e}")))?;
    check_against("reloaded", &loaded, &model, tot).map_err(ctx)?;
    tot.reloads += 1;
    progress(t0, "flushed + reloaded + checked");
    // the same instance keeps working: sequential follow-up, incremental flush, second reload
    // (even rounds only: flush + reload is the expensive part under Miri)
    if unique {
        tot.bucket_objects += disk.bucket_writes;
        tot.final_pairs += model.values().map(|s| s.len() as u64).sum::<u64>();
        tot.rounds += 1;
        return Ok(());
    }
    let mut follow = vec![];
    if let Some((k, s)) = model.iter().next() {
        follow.push(Op::Remove(*s.iter().next().unwrap(), *k));
    }
    follow.push(Op::Insert(pksets[0][0], keysets[0][0]));
    follow.push(Op::Compact);
    follow.push(Op::InsertArray(pksets[n_threads - 1][1], keysets[n_threads - 1].iter().copied().take(2).collect()));
    for op in &follow {
        let got = index_apply(&idx, op, 4);
        let exp = model_apply(&mut model, unique, op);
        if got != exp {
            return Err(ctx(format!("follow-up {op:?}: returned {got:?}, model {exp:?}")));
        }
        tot.ops += 1;
        tot.model_comparisons += 1;
    }
    flush(&idx, &mut disk, 5).map_err(|e| ctx(format!("second flush failed: {e}")))?;
    let loaded = load(&disk).map_err(|e| ctx(format!("second load_all failed: {e}")))?;
    check_against("reloaded after follow-up", &loaded, &model, tot).map_err(ctx)?;
    check_against("memory after follow-up", &idx, &model, tot).map_err(ctx)?;
    tot.reloads += 1;
    progress(t0, "follow-up flushed + reloaded + checked");
    tot.bucket_objects += disk.bucket_writes;
    tot.final_pairs += model.values().map(|s| s.len() as u64).sum::<u64>();
    tot.rounds += 1;
    Ok(())
}

fn main() {
    let args: Vec<String> = std::env::args().collect();
    let seed: u64 = args.get(1).and_then(|s| s.parse().ok()).unwrap_or(1);
    let rounds: u64 = args.get(2).and_then(|s| s.parse().ok()).unwrap_or(2);
    anda_db_utils::verif::set_hook(Some(v_miri::hook));
    let mut tot = Totals::default();
    for r in 0..rounds {
        if let Err(e) = round(seed, r, &mut tot) {
            println!("MIRI-C10 violation {e}");
            std::process::exit(1);
        }
    }
    println!(
        "MIRI-C10 done seed={seed} threads={} ops={} invariant_checks={} model_comparisons={} reloads={} rounds={} \
         hook_points={} compactions={} transient_scan_gaps={} bucket_objects={} max_bucket_id={} final_pairs={}",
        tot.threads,
        tot.ops,
        tot.invariant_checks,
        tot.model_comparisons,
        tot.reloads,
        tot.rounds,
        tot.hook_points,
        tot.compactions,
        tot.scan_gaps,
        tot.bucket_objects,
        tot.max_bucket_id,
        tot.final_pairs
    );
}

//! Shared fixtures of the v_store monitors.

//! C08 - Wrapper writes are atomic under crashes; garbage collection is safe.
//!
//! Two monitors over the real `MetaStore` / `EncryptedStore` code (DESIGN.md C08):
//!
//! 1. **Crash enumeration.** A `RecStore` sits below the wrapper and records every inner
//!    mutation of a generated operation sequence (put / multipart / copy / rename / delete /
//!    collect_garbage over 4 keys, some seeded in the legacy pre-0.10 layout, some operations
//!    with an injected backend failure so that real garbage exists). For EVERY prefix k of the
//!    landed-mutation log the backend state is rebuilt (`materialize(k)` = power loss after the
//!    k-th inner mutation), a fresh wrapper (cold cache) is put on top and every key is read
//!    through get / head / the three listings, then `collect_garbage` runs twice.
//! 2. **GC under in-process concurrency.** `RecStore` gate mode + `ManualExec`: one or two
//!    writers/copiers are parked between payload write and pointer switch, the wall clock is
//!    advanced past the parked generation's millisecond (precondition, not a verdict), then
//!    `collect_garbage` is interleaved with them (DFS over the choice tree within a budget,
//!    seeded random schedules beyond it).
//!
//! The oracles are the property's: a key reads, in full, the value before or after the
//! operation in flight; readable <=> listed; GC changes no readable byte; no commit point ever
//! refers to a missing payload.

use aes_gcm::aead::KeyInit;
use aes_gcm::{AeadInOut, Aes256Gcm, Key, Nonce};
use anda_object_store::{EncryptedStore, EncryptedStoreBuilder, MetaStore, MetaStoreBuilder};
use cbor2::Value as Cbor;
use futures::TryStreamExt;
use object_store::memory::InMemory;
use object_store::path::Path;
use object_store::{
    CopyMode, CopyOptions, Error as OsError, ObjectStore, ObjectStoreExt, PutMode, PutOptions,
    PutPayload, RenameOptions, RenameTargetMode,
};
use std::collections::{BTreeMap, BTreeSet};
use std::sync::Arc;
use std::time::{Duration, Instant};
use vcore::manual::{Chooser, DfsChooser, ManualExec};
use vcore::recstore::{Fault, LogItem, Mutation, RecStore, dump_store};
use vcore::run::block_on;
use vcore::{Rng, Run, Stats, json};

type Dyn = Arc<dyn ObjectStore>;
type Model = Vec<Option<Vec<u8>>>;

const SECRET: [u8; 32] = [0x5a; 32];
const KEYS: [&str; 4] = ["a", "a/b", "d/e", "f"];

// ---------------------------------------------------------------------------------------------
// the two wrappers behind one handle

#[derive(Clone, Copy, Debug)]
struct Cfg {
    enc: bool,
    chunk: u64,
    strict: bool,
}

impl Cfg {
    fn name(&self) -> &'static str {
        if self.enc { "enc" } else { "meta" }
    }
    fn gen_cfg(rng: &mut Rng, enc: bool, legacy: bool) -> Cfg {
        Cfg {
            enc,
            chunk: *rng.pick(&[1u64, 4, 7, 16, 256 * 1024]),
            // strict metadata authentication rejects genuine pre-auth legacy documents
            strict: enc && !legacy && rng.bool(),
        }
    }
}

#[derive(Clone)]
enum Gc {
    Meta(MetaStore<Dyn>),
    Enc(EncryptedStore<Dyn>),
}

#[derive(Clone)]
struct Wrap {
    os: Dyn,
    gc: Gc,
}

impl Wrap {
    fn new(cfg: &Cfg, inner: Dyn) -> Wrap {
        if cfg.enc {
            let mut b =
                EncryptedStoreBuilder::with_secret(inner, 1000, SECRET).with_chunk_size(cfg.chunk);
            if cfg.strict {
                b = b.with_strict_metadata_auth();
            }
            let s = b.build();
            Wrap { os: Arc::new(s.clone()), gc: Gc::Enc(s) }
        } else {
            let s = MetaStoreBuilder::new(inner, 1000).build();
            Wrap { os: Arc::new(s.clone()), gc: Gc::Meta(s) }
        }
    }
    async fn collect_garbage(&self) -> object_store::Result<usize> {
        match &self.gc {
            Gc::Meta(s) => s.collect_garbage().await,
            Gc::Enc(s) => s.collect_garbage().await,
        }
    }
}

fn err_name(e: &OsError) -> &'static str {
    match e {
        OsError::NotFound { .. } => "NotFound",
        OsError::AlreadyExists { .. } => "AlreadyExists",
        OsError::Precondition { .. } => "Precondition",
        OsError::NotModified { .. } => "NotModified",
        OsError::NotSupported { .. } => "NotSupported",
        OsError::Generic { .. } => "Generic",
        _ => "Other",
    }
}

fn unix_ms() -> u64 {
    std::time::SystemTime::now()
        .duration_since(std::time::UNIX_EPOCH)
        .map(|d| d.as_millis() as u64)
        .unwrap_or(0)
}

/// Scenario precondition: the wall clock is at least 2 ms past `ts` (the collector skips
/// generations minted at or after its start millisecond). Never part of a verdict.
fn wait_past(ts: u64) -> bool {
    let t0 = Instant::now();
    while unix_ms() < ts + 2 {
        if t0.elapsed() > Duration::from_secs(5) {
            return false;
        }
        std::thread::sleep(Duration::from_micros(250));
    }
    true
}

fn show(v: &Option<Vec<u8>>) -> String {
    match v {
        None => "absent".into(),
        Some(b) => {
            let hex: String = b.iter().take(8).map(|x| format!("{x:02x}")).collect();
            format!("{}B:{hex}", b.len())
        }
    }
}

// ---------------------------------------------------------------------------------------------
// legacy (pre-0.10) layout, written directly into the inner store as the crate's tests do

fn cbor_bytes(doc: &Cbor) -> Vec<u8> {
    let mut buf = vec![];
    cbor2::to_writer(doc, &mut buf).expect("cbor encode");
    buf
}

fn opt_text(v: Option<String>) -> Cbor {
    v.map(Cbor::from).unwrap_or(Cbor::Null)
}

/// `data/<key>` + generation-less `{s,e,o,v}` document (MetaStore < 0.10).
async fn seed_legacy_meta(store: &dyn ObjectStore, key: &str, data: &[u8]) {
    let put = store
        .put(&Path::from(format!("data/{key}")), PutPayload::from(data.to_vec()))
        .await
        .expect("seed legacy payload");
    let doc = Cbor::Map(vec![
        (Cbor::from("s"), Cbor::from(data.len() as u64)),
        // the pre-0.10 ETag was a content hash; it is an opaque token for every reader
        (Cbor::from("e"), Cbor::from(format!("legacy-{:016x}", vcore::fnv(data)))),
        (Cbor::from("o"), opt_text(put.e_tag)),
        (Cbor::from("v"), opt_text(put.version)),
    ]);
    store
        .put(&Path::from(format!("meta/{key}")), cbor_bytes(&doc).into())
        .await
        .expect("seed legacy metadata");
}

/// Documented nonce derivation (docs/anda_object_store.md 4.3).
fn derive_nonce(base: &[u8; 12], idx: u64) -> [u8; 12] {
    let mut n = *base;
    let mut ctr = [0u8; 8];
    ctr.copy_from_slice(&n[4..12]);
    let c = u64::from_le_bytes(ctr).wrapping_add(idx);
    n[4..12].copy_from_slice(&c.to_le_bytes());
    n
}

/// Pre-auth legacy EncryptedStore object: ciphertext (empty chunk AAD) at `data/<key>`,
/// `{s,e,o,v,n,t,c}` document without authentication fields, AAD version or generation.
async fn seed_legacy_enc(store: &dyn ObjectStore, key: &str, data: &[u8], chunk: u64, base: [u8; 12]) {
    let cipher = Aes256Gcm::new(&Key::<Aes256Gcm>::from(SECRET));
    let mut ct = data.to_vec();
    let mut tags = vec![];
    for (i, ch) in ct.chunks_mut(chunk.max(1) as usize).enumerate() {
        let nonce = derive_nonce(&base, i as u64);
        let tag = cipher
            .encrypt_inout_detached(&Nonce::from(nonce), &[], ch.into())
            .expect("legacy chunk encryption");
        let tag: [u8; 16] = tag.into();
        tags.push(Cbor::from(tag.to_vec()));
    }
    let etag = format!("legacy-{:016x}", vcore::fnv(&ct));
    let put = store
        .put(&Path::from(format!("data/{key}")), PutPayload::from(ct))
        .await
        .expect("seed legacy ciphertext");
    let doc = Cbor::Map(vec![
        (Cbor::from("s"), Cbor::from(data.len() as u64)),
        (Cbor::from("e"), Cbor::from(etag)),
        (Cbor::from("o"), opt_text(put.e_tag)),
        (Cbor::from("v"), opt_text(put.version)),
        (Cbor::from("n"), Cbor::from(base.to_vec())),
        (Cbor::from("t"), Cbor::Array(tags)),
        (Cbor::from("c"), Cbor::from(chunk.max(1))),
    ]);
    store
        .put(&Path::from(format!("meta/{key}")), cbor_bytes(&doc).into())
        .await
        .expect("seed legacy metadata");
}

async fn seed_legacy(cfg: &Cfg, store: &dyn ObjectStore, key: &str, data: &[u8], rng: &mut Rng) {
    if cfg.enc {
        let mut base = [0u8; 12];
        base.copy_from_slice(&rng.bytes(12));
        // a legacy object may have been written with another chunk size than the store's
        let chunk = *rng.pick(&[cfg.chunk.min(64), 3, 16]);
        seed_legacy_enc(store, key, data, chunk, base).await;
    } else {
        seed_legacy_meta(store, key, data).await;
    }
}

/// Plants an unreferenced generation object older than any collection floor.
async fn plant_stale_generation(store: &dyn ObjectStore, key: &str, rng: &mut Rng) {
    let ts = unix_ms().saturating_sub(60_000 + rng.below(1000));
    let salt = rng.next_u64() as u32;
    let n = rng.usize(20);
    store
        .put(
            &Path::from(format!("gen/{key}/{ts:016x}-{salt:08x}")),
            PutPayload::from(rng.bytes(n)),
        )
        .await
        .expect("plant stale generation");
}

// ---------------------------------------------------------------------------------------------
// inner-store inspection without wrapper types

/// Payload path a metadata document points at, read generically from the CBOR map.
fn pointer_of(key: &str, doc: &[u8]) -> Result<String, String> {
    let v: Cbor = cbor2::from_slice(doc).map_err(|e| format!("undecodable metadata: {e:?}"))?;
    let Cbor::Map(m) = v else {
        return Err("metadata is not a map".into());
    };
    for (k, v) in &m {
        if k.as_text() == Some("g") {
            return match v {
                Cbor::Text(g) => Ok(format!("gen/{key}/{g}")),
                Cbor::Null => Ok(format!("data/{key}")),
                _ => Err("generation field is not text".into()),
            };
        }
    }
    Ok(format!("data/{key}"))
}

struct Inspect {
    dangling: Vec<String>,
    payload_objects: usize,
    meta_docs: usize,
}

/// Every `meta/` document must point at an existing payload object.
async fn inspect(inner: &dyn ObjectStore) -> Inspect {
    let dump = dump_store(inner).await;
    let paths: BTreeSet<&str> = dump.iter().map(|(p, _)| p.as_str()).collect();
    let mut out = Inspect { dangling: vec![], payload_objects: 0, meta_docs: 0 };
    for (p, b) in &dump {
        if let Some(key) = p.strip_prefix("meta/") {
            out.meta_docs += 1;
            match pointer_of(key, b) {
                Ok(target) => {
                    if !paths.contains(target.as_str()) {
                        out.dangling.push(format!("{p} -> {target} (missing)"));
                    }
                }
                Err(e) => out.dangling.push(format!("{p}: {e}")),
            }
        } else if p.starts_with("gen/") || p.starts_with("data/") {
            out.payload_objects += 1;
        }
    }
    out
}

fn generation_ts(path: &str) -> Option<u64> {
    let last = path.rsplit('/').next()?;
    let (ts, salt) = last.split_once('-')?;
    if ts.len() != 16 || salt.len() != 8 {
        return None;
    }
    u64::from_str_radix(ts, 16).ok()
}

// ---------------------------------------------------------------------------------------------
// reading one key through every read API

#[derive(Clone, Debug, PartialEq)]
enum Read {
    Absent,
    Bytes(Vec<u8>),
    Failed(String),
}

impl Read {
    fn as_model(&self) -> Option<Option<Vec<u8>>> {
        match self {
            Read::Absent => Some(None),
            Read::Bytes(b) => Some(Some(b.clone())),
            Read::Failed(_) => None,
        }
    }
    fn show(&self) -> String {
        match self {
            Read::Absent => "absent".into(),
            Read::Bytes(b) => show(&Some(b.clone())),
            Read::Failed(e) => format!("ERROR {e}"),
        }
    }
}

struct KeyView {
    read: Read,
    /// (size, e_tag) reported by get
    get_meta: Option<(u64, Option<String>)>,
    /// head: Ok(Some(size, etag)) / Ok(None) = NotFound / Err
    head: Result<Option<(u64, Option<String>)>, String>,
}

async fn view_key(os: &dyn ObjectStore, key: &str) -> KeyView {
    let p = Path::from(key);
    let (read, get_meta) = match os.get(&p).await {
        Err(OsError::NotFound { .. }) => (Read::Absent, None),
        Err(e) => (Read::Failed(format!("get: {e}")), None),
        Ok(r) => {
            let m = (r.meta.size, r.meta.e_tag.clone());
            match r.bytes().await {
                Ok(b) => (Read::Bytes(b.to_vec()), Some(m)),
                Err(e) => (Read::Failed(format!("get body: {e}")), Some(m)),
            }
        }
    };
    let head = match os.head(&p).await {
        Ok(m) => Ok(Some((m.size, m.e_tag))),
        Err(OsError::NotFound { .. }) => Ok(None),
        Err(e) => Err(format!("{e}")),
    };
    KeyView { read, get_meta, head }
}

type Listing = BTreeMap<String, (u64, Option<String>)>;

async fn list_all(os: &dyn ObjectStore) -> Result<Listing, String> {
    let v: Vec<_> = os.list(None).try_collect().await.map_err(|e| format!("{e}"))?;
    Ok(v.into_iter().map(|m| (m.location.to_string(), (m.size, m.e_tag))).collect())
}

async fn list_offset(os: &dyn ObjectStore) -> Result<Listing, String> {
    // every generated key sorts after "0"
    let v: Vec<_> = os
        .list_with_offset(None, &Path::from("0"))
        .try_collect()
        .await
        .map_err(|e| format!("{e}"))?;
    Ok(v.into_iter().map(|m| (m.location.to_string(), (m.size, m.e_tag))).collect())
}

async fn list_delimited(os: &dyn ObjectStore) -> Result<Listing, String> {
    let mut out = Listing::new();
    let mut todo: Vec<Option<Path>> = vec![None];
    let mut seen = BTreeSet::new();
    while let Some(prefix) = todo.pop() {
        let r = os.list_with_delimiter(prefix.as_ref()).await.map_err(|e| format!("{e}"))?;
        for m in r.objects {
            out.insert(m.location.to_string(), (m.size, m.e_tag));
        }
        for p in r.common_prefixes {
            if seen.insert(p.to_string()) {
                todo.push(Some(p));
            }
        }
    }
    Ok(out)
}

// ---------------------------------------------------------------------------------------------
// monitor 1: operation sequences + crash enumeration

#[derive(Clone, Copy, Debug, PartialEq)]
enum PutFault {
    None,
    /// the pointer switch (second backend mutation of the put) fails: the put reports an error
    /// and leaves an unreferenced generation behind
    FailCommit,
    /// the best-effort reclaim of the replaced payload fails: the put succeeds, the replaced
    /// generation stays as garbage
    LeakOld,
}

#[derive(Clone, Debug)]
enum Op {
    Put { key: usize, data: Vec<u8>, create: bool, fault: PutFault },
    Multipart { key: usize, parts: Vec<Vec<u8>> },
    Copy { from: usize, to: usize, create: bool },
    Rename { from: usize, to: usize, create: bool },
    Delete { key: usize },
    Gc,
}

impl Op {
    fn kind(&self) -> &'static str {
        match self {
            Op::Put { .. } => "put",
            Op::Multipart { .. } => "multipart",
            Op::Copy { .. } => "copy",
            Op::Rename { .. } => "rename",
            Op::Delete { .. } => "delete",
            Op::Gc => "gc",
        }
    }
    fn describe(&self) -> String {
        match self {
            Op::Put { key, data, create, fault } => format!(
                "put {} {}B{}{}",
                KEYS[*key],
                data.len(),
                if *create { " create" } else { "" },
                match fault {
                    PutFault::None => "",
                    PutFault::FailCommit => " [backend fails the pointer switch]",
                    PutFault::LeakOld => " [backend fails the reclaim delete]",
                }
            ),
            Op::Multipart { key, parts } => format!(
                "multipart {} parts={:?}",
                KEYS[*key],
                parts.iter().map(|p| p.len()).collect::<Vec<_>>()
            ),
            Op::Copy { from, to, create } => {
                format!("copy {} -> {}{}", KEYS[*from], KEYS[*to], if *create { " create" } else { "" })
            }
            Op::Rename { from, to, create } => {
                format!("rename {} -> {}{}", KEYS[*from], KEYS[*to], if *create { " create" } else { "" })
            }
            Op::Delete { key } => format!("delete {}", KEYS[*key]),
            Op::Gc => "collect_garbage".into(),
        }
    }
}

fn gen_value(rng: &mut Rng, cfg: &Cfg, serial: &mut u32) -> Vec<u8> {
    let c = cfg.chunk.min(16) as usize;
    let n = match rng.below(8) {
        0 => 0,
        1 => 1,
        2 => c.saturating_sub(1),
        3 => c,
        4 => c + 1,
        5 => 2 * c + 3,
        _ => 2 + rng.usize(40),
    };
    let mut v = rng.bytes(n);
    // distinct values wherever the size allows, so that "old" and "new" are told apart
    *serial += 1;
    if n >= 2 {
        v[0] = *serial as u8;
        v[1] = (*serial >> 8) as u8;
    }
    v
}

fn split_parts(rng: &mut Rng, data: &[u8]) -> Vec<Vec<u8>> {
    let mut parts = vec![];
    let mut rest = data;
    while !rest.is_empty() && parts.len() < 4 {
        let n = 1 + rng.usize(rest.len());
        parts.push(rest[..n].to_vec());
        rest = &rest[n..];
    }
    if !rest.is_empty() {
        parts.push(rest.to_vec());
    }
    if rng.chance(1, 5) {
        parts.insert(rng.usize(parts.len() + 1), vec![]); // an empty part
    }
    parts
}

fn gen_op(rng: &mut Rng, cfg: &Cfg, model: &Model, serial: &mut u32) -> Op {
    let present: Vec<usize> = (0..KEYS.len()).filter(|k| model[*k].is_some()).collect();
    let any = |rng: &mut Rng| rng.usize(KEYS.len());
    let existing = |rng: &mut Rng| {
        if !present.is_empty() && rng.chance(5, 6) { *rng.pick(&present) } else { rng.usize(KEYS.len()) }
    };
    match rng.weighted(&[30, 12, 15, 15, 12, 9]) {
        0 => {
            let key = any(rng);
            let fault = if rng.chance(1, 8) {
                PutFault::FailCommit
            } else if model[key].is_some() && rng.chance(1, 5) {
                PutFault::LeakOld
            } else {
                PutFault::None
            };
            Op::Put {
                key,
                data: gen_value(rng, cfg, serial),
                create: fault == PutFault::None && rng.chance(1, 8),
                fault,
            }
        }
        1 => {
            let data = gen_value(rng, cfg, serial);
            Op::Multipart { key: any(rng), parts: split_parts(rng, &data) }
        }
        2 => Op::Copy { from: existing(rng), to: any(rng), create: rng.chance(1, 6) },
        3 => Op::Rename { from: existing(rng), to: any(rng), create: rng.chance(1, 6) },
        4 => Op::Delete { key: existing(rng) },
        _ => Op::Gc,
    }
}

/// Sequential reference semantics: expected outcome class and effect on the key -> value map.
fn model_apply(model: &mut Model, op: &Op) -> &'static str {
    match op {
        Op::Put { key, data, create, fault } => {
            if *create && model[*key].is_some() {
                return "AlreadyExists";
            }
            if *fault == PutFault::FailCommit {
                return "Generic";
            }
            model[*key] = Some(data.clone());
            "ok"
        }
        Op::Multipart { key, parts } => {
            model[*key] = Some(parts.concat());
            "ok"
        }
        Op::Copy { from, to, create } => {
            if model[*from].is_none() {
                return "NotFound";
            }
            if *create && model[*to].is_some() {
                return "AlreadyExists";
            }
            model[*to] = model[*from].clone();
            "ok"
        }
        Op::Rename { from, to, create } => {
            if model[*from].is_none() {
                return "NotFound";
            }
            if *create && model[*to].is_some() {
                return "AlreadyExists";
            }
            if from != to {
                model[*to] = model[*from].take();
            }
            "ok"
        }
        Op::Delete { key } => {
            if model[*key].is_none() {
                return "NotFound";
            }
            model[*key] = None;
            "ok"
        }
        Op::Gc => "ok",
    }
}

async fn do_multipart(os: &dyn ObjectStore, path: &Path, parts: &[Vec<u8>]) -> object_store::Result<()> {
    let mut up = os.put_multipart(path).await?;
    for p in parts {
        up.put_part(PutPayload::from(p.clone())).await?;
    }
    up.complete().await?;
    Ok(())
}

static LOST_ACK_RETRIES: std::sync::atomic::AtomicU64 = std::sync::atomic::AtomicU64::new(0);
static LOST_ACK_RETRIES_OK: std::sync::atomic::AtomicU64 = std::sync::atomic::AtomicU64::new(0);

/// Multipart upload whose `complete()` loses its acknowledgement: the second backend mutation of
/// the completion (the pointer switch of a plain commit) LANDS and an error is returned; the
/// caller retries `complete()` on the same uploader, as it would after a timeout. (Calling
/// `complete` on an upload that reported success is implementation-defined in the object_store
/// contract and is not done here.) The uploader keeps one generation for its whole life, so the
/// retry re-commits the generation the key may already name: its reclaim step must spare it
/// (seeded change C08-5). The retry's backend steps are crash points like any other.
async fn do_multipart_lost_ack(os: &dyn ObjectStore, rec: &RecStore, path: &Path, parts: &[Vec<u8>]) -> object_store::Result<()> {
    let mut up = os.put_multipart(path).await?;
    for p in parts {
        up.put_part(PutPayload::from(p.clone())).await?;
    }
    rec.set_fault(Fault::FailAfter(rec.attempts() + 1));
    let first = up.complete().await;
    rec.reset_faults();
    if first.is_ok() {
        return Ok(());
    }
    LOST_ACK_RETRIES.fetch_add(1, std::sync::atomic::Ordering::Relaxed);
    up.complete().await?;
    LOST_ACK_RETRIES_OK.fetch_add(1, std::sync::atomic::Ordering::Relaxed);
    Ok(())
}

async fn apply_op(w: &Wrap, rec: &RecStore, op: &Op) -> (String, Option<usize>) {
    let r: object_store::Result<Option<usize>> = match op {
        Op::Put { key, data, create, fault } => {
            match fault {
                PutFault::None => {}
                // mutation attempts of a put: payload, pointer switch, reclaim of the replaced payload
                PutFault::FailCommit => rec.set_fault(Fault::FailBefore(rec.attempts() + 1)),
                PutFault::LeakOld => rec.set_fault(Fault::FailBefore(rec.attempts() + 2)),
            }
            let opts = PutOptions {
                mode: if *create { PutMode::Create } else { PutMode::Overwrite },
                ..Default::default()
            };
            let r = w
                .os
                .put_opts(&Path::from(KEYS[*key]), PutPayload::from(data.clone()), opts)
                .await
                .map(|_| None);
            rec.reset_faults();
            r
        }
        Op::Multipart { key, parts } => {
            // every upload with an odd total size loses the acknowledgement of its completion
            if parts.iter().map(|p| p.len()).sum::<usize>() % 2 == 1 {
                do_multipart_lost_ack(w.os.as_ref(), rec, &Path::from(KEYS[*key]), parts).await.map(|_| None)
            } else {
                do_multipart(w.os.as_ref(), &Path::from(KEYS[*key]), parts).await.map(|_| None)
            }
        }
        Op::Copy { from, to, create } => w
            .os
            .copy_opts(
                &Path::from(KEYS[*from]),
                &Path::from(KEYS[*to]),
                CopyOptions {
                    mode: if *create { CopyMode::Create } else { CopyMode::Overwrite },
                    ..Default::default()
                },
            )
            .await
            .map(|_| None),
        Op::Rename { from, to, create } => w
            .os
            .rename_opts(
                &Path::from(KEYS[*from]),
                &Path::from(KEYS[*to]),
                RenameOptions {
                    target_mode: if *create { RenameTargetMode::Create } else { RenameTargetMode::Overwrite },
                    ..Default::default()
                },
            )
            .await
            .map(|_| None),
        Op::Delete { key } => w.os.delete(&Path::from(KEYS[*key])).await.map(|_| None),
        Op::Gc => w.collect_garbage().await.map(Some),
    };
    match r {
        Ok(n) => ("ok".into(), n),
        Err(e) => (err_name(&e).to_string(), None),
    }
}

struct OpRec {
    op: Op,
    lo: usize,
    hi: usize,
    before: Model,
    after: Model,
    result: String,
    /// the operation writes or deletes a key that is in the legacy layout (migration path)
    legacy_migration: bool,
}

struct CrashCtx<'a> {
    cfg: Cfg,
    case: u64,
    ops: &'a [OpRec],
    mutations: &'a [Mutation],
    seed_end: usize,
}

impl CrashCtx<'_> {
    fn detail(&self, k: usize, inflight: Option<usize>, what: serde_json::Value) -> serde_json::Value {
        json!({
            "wrapper": self.cfg.name(), "chunk_size": self.cfg.chunk, "strict": self.cfg.strict,
            "case": self.case, "crash_after_mutation": k, "what": what,
            "operation_in_flight": inflight.map(|i| self.ops[i].op.describe()),
            "operations": self.ops.iter().map(|o| format!("[{}..{}] {} -> {}", o.lo, o.hi, o.op.describe(), o.result)).collect::<Vec<_>>(),
            "inner_mutations": self.mutations.iter().enumerate().map(|(i, m)| format!("{i}{}: {}", if i < self.seed_end { " (seed)" } else { "" }, m.describe())).collect::<Vec<_>>(),
        })
    }
}

/// All checks on the backend state a power loss after the k-th inner mutation leaves behind.
async fn check_crash_state(
    ctx: &CrashCtx<'_>,
    k: usize,
    inner: Arc<InMemory>,
    allowed: &[Vec<Option<Vec<u8>>>],
    inflight: Option<usize>,
    st: &mut Stats,
) -> bool {
    let cfg = ctx.cfg;
    let w = cfg.name();
    let mut ok = true;
    macro_rules! fail {
        ($sig:expr, $what:expr) => {{
            st.violation(format!("C08/{w}/{}", $sig), ctx.detail(k, inflight, $what));
            ok = false;
        }};
    }
    st.count("crash_points");
    let ins = inspect(inner.as_ref()).await;
    st.count("oracle_pointer_resolves");
    if !ins.dangling.is_empty() {
        fail!("crash/commit_point_without_payload", json!({"dangling": ins.dangling}));
    }

    // cold instance
    let cold = Wrap::new(&cfg, inner.clone());
    let mut views = vec![];
    for key in KEYS {
        views.push(view_key(cold.os.as_ref(), key).await);
    }
    let mut readable = BTreeMap::new();
    for (i, v) in views.iter().enumerate() {
        st.count("oracle_old_or_new");
        st.eval();
        match v.read.as_model() {
            None => fail!(
                "crash/unreadable_key",
                json!({"key": KEYS[i], "read": v.read.show(),
                       "allowed": allowed[i].iter().map(show).collect::<Vec<_>>()})
            ),
            Some(got) => {
                if !allowed[i].contains(&got) {
                    fail!(
                        "crash/neither_old_nor_new",
                        json!({"key": KEYS[i], "read": show(&got),
                               "allowed": allowed[i].iter().map(show).collect::<Vec<_>>()})
                    );
                } else if let Some(i_op) = inflight {
                    let o = &ctx.ops[i_op];
                    if o.before[i] != o.after[i] {
                        st.count(if got == o.after[i] { "inflight_read_new" } else { "inflight_read_old" });
                    }
                }
                if let Some(b) = &got {
                    readable.insert(KEYS[i].to_string(), b.len() as u64);
                }
            }
        }
        // get, head agree
        st.count("oracle_head_agrees");
        match (&v.read, &v.head) {
            (Read::Bytes(b), Ok(Some((size, tag)))) => {
                let gm = v.get_meta.as_ref().unwrap();
                if *size != b.len() as u64 || gm.0 != b.len() as u64 || &gm.1 != tag {
                    fail!(
                        "crash/head_disagrees_with_get",
                        json!({"key": KEYS[i], "bytes": b.len(), "get_meta": format!("{gm:?}"),
                               "head": format!("{:?}", v.head)})
                    );
                }
            }
            (Read::Absent, Ok(None)) => {}
            (Read::Failed(_), _) => {}
            _ => fail!(
                "crash/head_disagrees_with_get",
                json!({"key": KEYS[i], "read": v.read.show(), "head": format!("{:?}", v.head)})
            ),
        }
    }
    // the three listings: every listed key readable, every readable key listed, sizes equal
    let listings = [
        ("list", list_all(cold.os.as_ref()).await),
        ("list_with_offset", list_offset(cold.os.as_ref()).await),
        ("list_with_delimiter", list_delimited(cold.os.as_ref()).await),
    ];
    for (name, l) in &listings {
        st.count("oracle_listing_agrees");
        match l {
            Err(e) => fail!("crash/listing_failed", json!({"listing": name, "error": e})),
            Ok(l) => {
                let listed: BTreeMap<String, u64> = l.iter().map(|(k, v)| (k.clone(), v.0)).collect();
                let mut tags_ok = true;
                for (i, v) in views.iter().enumerate() {
                    if let (Some((_, t)), Some((_, lt))) = (&v.get_meta, l.get(KEYS[i])) {
                        tags_ok &= t == lt;
                    }
                }
                if listed != readable || !tags_ok {
                    fail!(
                        "crash/listing_disagrees_with_get",
                        json!({"listing": name, "listed(key->size)": listed, "readable(key->size)": readable,
                               "etags_equal": tags_ok})
                    );
                }
            }
        }
    }
    // rename never loses the object: once the source is gone the target holds it
    if let Some(i_op) = inflight {
        let o = &ctx.ops[i_op];
        if let Op::Rename { from, to, .. } = &o.op {
            if from != to && o.result == "ok" {
                st.count("oracle_rename_pair");
                let src = views[*from].read.as_model();
                let tgt = views[*to].read.as_model();
                if src == Some(None) && tgt.is_some() && tgt != Some(o.after[*to].clone()) {
                    fail!(
                        "crash/rename_lost_object",
                        json!({"source": KEYS[*from], "target": KEYS[*to],
                               "source_reads": "absent", "target_reads": views[*to].read.show(),
                               "target_expected": show(&o.after[*to])})
                    );
                }
                match (&src, &tgt) {
                    (Some(Some(_)), Some(Some(_))) => st.count("rename_crash_both_present"),
                    (Some(Some(_)), _) => st.count("rename_crash_source_only"),
                    (_, Some(Some(_))) => st.count("rename_crash_target_only"),
                    _ => {}
                }
            }
        }
    }
    if !ok {
        return false;
    }

    // garbage collection after the crash: same bytes, convergence, nothing left behind
    let before: Vec<Read> = views.iter().map(|v| v.read.clone()).collect();
    let n1 = match cold.collect_garbage().await {
        Ok(n) => n,
        Err(e) => {
            st.violation(
                format!("C08/{w}/crash/gc_failed"),
                ctx.detail(k, inflight, json!({"error": format!("{e}"), "run": 1})),
            );
            return false;
        }
    };
    st.count("gc_after_crash_runs");
    if n1 > 0 {
        st.count("gc_after_crash_deleted_gt0");
        st.add("gc_after_crash_objects_deleted", n1 as u64);
    }
    let colder = Wrap::new(&cfg, inner.clone());
    for (i, key) in KEYS.iter().enumerate() {
        let warm = view_key(cold.os.as_ref(), key).await.read;
        let fresh = view_key(colder.os.as_ref(), key).await.read;
        st.count("oracle_same_bytes_after_gc");
        if warm != before[i] || fresh != before[i] {
            fail!(
                "crash/gc_changed_readable_bytes",
                json!({"key": key, "before_gc": before[i].show(), "after_gc_same_instance": warm.show(),
                       "after_gc_fresh_instance": fresh.show(), "gc_deleted": n1})
            );
        }
    }
    match colder.collect_garbage().await {
        Ok(0) => {}
        Ok(n2) => fail!("crash/gc_not_convergent", json!({"first_run_deleted": n1, "second_run_deleted": n2})),
        Err(e) => fail!("crash/gc_failed", json!({"error": format!("{e}"), "run": 2})),
    }
    st.count("oracle_gc_converges");
    let after = inspect(inner.as_ref()).await;
    if !after.dangling.is_empty() {
        fail!("crash/gc_removed_referenced_payload", json!({"dangling": after.dangling, "gc_deleted": n1}));
    }
    // leak accounting: one payload object per live key once GC ran on eligible garbage
    // (docs: "collect_garbage: mark-sweep reclamation of unreferenced payloads")
    st.count("oracle_no_leak_after_gc");
    let live = readable.len();
    st.add("payload_objects_before_gc", ins.payload_objects as u64);
    st.add("payload_objects_after_gc", after.payload_objects as u64);
    st.add("live_keys_at_crash_points", live as u64);
    if after.payload_objects != live || after.meta_docs != live {
        fail!(
            "crash/gc_leaves_unreferenced_payloads",
            json!({"payload_objects_after_gc": after.payload_objects, "commit_points": after.meta_docs,
                   "live_keys": live, "gc_deleted": n1})
        );
    }
    ok
}

fn crash_case(case: u64, rng: &mut Rng, st: &mut Stats, enc: bool, n_ops: usize) {
    block_on(crash_case_async(case, rng, st, enc, n_ops));
}

async fn crash_case_async(case: u64, rng: &mut Rng, st: &mut Stats, enc: bool, n_ops: usize) {
    let n_legacy = rng.weighted(&[3, 4, 3]);
    let cfg = Cfg::gen_cfg(rng, enc, n_legacy > 0);
    let rec = RecStore::new();
    rec.set_record_reads(false);
    let mut serial = 0u32;
    let mut model: Model = vec![None; KEYS.len()];
    let mut legacy = vec![false; KEYS.len()];

    // seeding (harness writes, not crash points): legacy objects + stale generations
    let mut order: Vec<usize> = (0..KEYS.len()).collect();
    rng.shuffle(&mut order);
    for &k in order.iter().take(n_legacy) {
        let v = gen_value(rng, &cfg, &mut serial);
        seed_legacy(&cfg, &rec, KEYS[k], &v, rng).await;
        model[k] = Some(v);
        legacy[k] = true;
        st.count("legacy_keys_seeded");
    }
    for k in 0..KEYS.len() {
        if rng.chance(1, 3) {
            plant_stale_generation(&rec, KEYS[k], rng).await;
            st.count("stale_generations_planted");
        }
    }
    if rng.chance(1, 4) {
        // orphaned legacy payload without a commit point
        rec.put(&Path::from("data/orphan"), PutPayload::from(rng.bytes(5))).await.expect("orphan");
    }
    let seed_end = rec.landed() as usize;

    // clean run
    let w = Wrap::new(&cfg, rec.as_dyn());
    let mut ops: Vec<OpRec> = vec![];
    for _ in 0..n_ops {
        let op = gen_op(rng, &cfg, &model, &mut serial);
        let before = model.clone();
        let expect = model_apply(&mut model, &op);
        let touched_legacy = |k: usize| legacy[k];
        let legacy_migration = expect == "ok"
            && match &op {
                Op::Put { key, .. } | Op::Multipart { key, .. } | Op::Delete { key } => touched_legacy(*key),
                Op::Copy { to, .. } => touched_legacy(*to),
                Op::Rename { from, to, .. } => from != to && (touched_legacy(*to) || touched_legacy(*from)),
                Op::Gc => false,
            };
        if matches!(op, Op::Gc) {
            // make the garbage written so far eligible (precondition of the scenario)
            if !wait_past(unix_ms()) {
                st.inconclusive("wall clock did not advance (GC eligibility precondition)");
                return;
            }
        }
        let lo = rec.landed() as usize;
        rec.marker("op_start", ops.len() as u64);
        let (result, gc_n) = apply_op(&w, &rec, &op).await;
        rec.marker("op_end", ops.len() as u64);
        let hi = rec.landed() as usize;
        st.count(&format!("op:{}", op.kind()));
        if let Op::Put { fault, .. } = &op {
            match fault {
                PutFault::FailCommit if result == "Generic" => st.count("op:put_failed_at_pointer_switch"),
                PutFault::LeakOld if result == "ok" => st.count("op:put_with_failed_reclaim"),
                _ => {}
            }
        }
        if let Some(n) = gc_n {
            st.count("gc_in_sequence_runs");
            if n > 0 {
                st.count("gc_in_sequence_deleted_gt0");
            }
        }
        if result != expect {
            // a clean run that does not follow the sequential reference semantics is C07's
            // subject; the crash analysis of this sequence would not be sound
            st.inconclusive(format!(
                "clean run diverged from the reference semantics: {} returned {result}, expected {expect} ({})",
                op.describe(),
                cfg.name()
            ));
            return;
        }
        if expect == "ok" {
            match &op {
                Op::Put { key, .. } | Op::Multipart { key, .. } | Op::Delete { key } => legacy[*key] = false,
                Op::Copy { to, .. } => legacy[*to] = false,
                Op::Rename { from, to, .. } if from != to => {
                    legacy[*to] = false;
                    legacy[*from] = false;
                }
                _ => {}
            }
        }
        ops.push(OpRec { op, lo, hi, before, after: model.clone(), result, legacy_migration });
    }
    let landed = rec.landed() as usize;
    let mutations = rec.mutations();
    // everything written by the run must be older than the floor of the collections below
    if !wait_past(unix_ms()) {
        st.inconclusive("wall clock did not advance (GC eligibility precondition)");
        return;
    }

    let ctx = CrashCtx { cfg, case, ops: &ops, mutations: &mutations, seed_end };
    let initial: Model = ops.first().map(|o| o.before.clone()).unwrap_or_else(|| model.clone());
    let mut crash_points = 0;
    for k in seed_end..=landed {
        // the operation whose mutations are partially applied at k, if any
        let inflight = ops.iter().position(|o| o.lo < k && k < o.hi);
        let allowed: Vec<Vec<Option<Vec<u8>>>> = match inflight {
            Some(i) => (0..KEYS.len())
                .map(|key| {
                    let mut a = vec![ops[i].before[key].clone()];
                    if ops[i].after[key] != ops[i].before[key] {
                        a.push(ops[i].after[key].clone());
                    }
                    a
                })
                .collect(),
            None => {
                // boundary: the state after the last operation with hi <= k
                let m = ops.iter().rev().find(|o| o.hi <= k).map(|o| &o.after).unwrap_or(&initial);
                m.iter().map(|v| vec![v.clone()]).collect()
            }
        };
        match inflight {
            Some(i) => {
                st.count(&format!("crash_inflight:{}", ops[i].op.kind()));
                if ops[i].legacy_migration {
                    st.count("crash_inflight:legacy_migration");
                }
                if let Op::Put { fault, .. } = &ops[i].op {
                    if *fault != PutFault::None {
                        st.count("crash_inflight:put_with_backend_fault");
                    }
                }
            }
            None => st.count("crash_at_operation_boundary"),
        }
        let inner = rec.materialize(k).await;
        crash_points += 1;
        if !check_crash_state(&ctx, k, inner, &allowed, inflight, st).await {
            return; // one violating sequence is reported once
        }
    }
    let kinds: BTreeSet<&str> = ops.iter().map(|o| o.op.kind()).collect();
    if kinds.len() >= 5 && crash_points >= 20 {
        let shape: Vec<String> = ops.iter().map(|o| o.op.describe()).collect();
        st.distinct(vcore::fnv_str(&format!("{}|{}|{}", cfg.name(), cfg.chunk, shape.join(";"))));
    }
    st.max("max_crash_points_per_sequence", crash_points as u64);
    if case < 2 {
        st.sample(|| {
            json!({"monitor": "crash_enumeration", "wrapper": cfg.name(), "chunk_size": cfg.chunk,
               "legacy_keys": n_legacy, "crash_points": crash_points,
               "operations": ops.iter().take(14).map(|o| format!("[{}..{}] {} -> {}", o.lo, o.hi, o.op.describe(), o.result)).collect::<Vec<_>>()})
        });
    }
}

// ---------------------------------------------------------------------------------------------
// monitor 2: collect_garbage interleaved with parked in-process writers

const GKEYS: [&str; 3] = ["x", "y/z", "w"];

#[derive(Clone, Debug)]
enum WOp {
    Put { key: usize, data: Vec<u8> },
    Multipart { key: usize, parts: Vec<Vec<u8>> },
    Copy { from: usize, to: usize },
    Rename { from: usize, to: usize },
    Delete { key: usize },
}

impl WOp {
    fn kind(&self) -> &'static str {
        match self {
            WOp::Put { .. } => "put",
            WOp::Multipart { .. } => "multipart",
            WOp::Copy { .. } => "copy",
            WOp::Rename { .. } => "rename",
            WOp::Delete { .. } => "delete",
        }
    }
    fn describe(&self) -> String {
        match self {
            WOp::Put { key, data } => format!("put {} {}", GKEYS[*key], show(&Some(data.clone()))),
            WOp::Multipart { key, parts } => {
                format!("multipart {} {}", GKEYS[*key], show(&Some(parts.concat())))
            }
            WOp::Copy { from, to } => format!("copy {} -> {}", GKEYS[*from], GKEYS[*to]),
            WOp::Rename { from, to } => format!("rename {} -> {}", GKEYS[*from], GKEYS[*to]),
            WOp::Delete { key } => format!("delete {}", GKEYS[*key]),
        }
    }
}

#[derive(Clone, Copy, Debug, PartialEq)]
enum Park {
    /// poll until the payload write landed: parked right before the pointer switch
    AfterPayload,
    Steps(u32),
    NotStarted,
}

#[derive(Clone, Debug)]
struct Scenario {
    cfg: Cfg,
    init: Model,
    legacy: Vec<bool>,
    /// keys that get a planted stale generation
    planted: Vec<usize>,
    /// keys rewritten once with a failing reclaim delete (real stale generation)
    leak_old: Vec<(usize, Vec<u8>)>,
    orphan_data: bool,
    writers: Vec<(WOp, Park)>,
    seed: u64,
}

fn gen_scenario(rng: &mut Rng, small: bool) -> Scenario {
    let enc = rng.bool();
    let mut serial = 0u32;
    let n_keys = GKEYS.len();
    let mut legacy = vec![false; n_keys];
    let mut init: Model = vec![None; n_keys];
    let any_legacy = rng.chance(1, 3);
    let cfg = Cfg::gen_cfg(rng, enc, any_legacy);
    for k in 0..n_keys {
        if rng.chance(3, 4) {
            init[k] = Some(gen_value(rng, &cfg, &mut serial));
            legacy[k] = any_legacy && rng.chance(1, 2);
        }
    }
    let mut planted = vec![];
    let mut leak_old = vec![];
    for k in 0..n_keys {
        if rng.chance(if small { 1 } else { 2 }, 3) {
            planted.push(k);
        }
        if init[k].is_some() && !legacy[k] && rng.chance(1, 3) {
            let v = gen_value(rng, &cfg, &mut serial);
            leak_old.push((k, v));
        }
    }
    if planted.is_empty() && leak_old.is_empty() {
        planted.push(rng.usize(n_keys));
    }
    let present: Vec<usize> = (0..n_keys).filter(|k| init[*k].is_some()).collect();
    let n_writers = if small { 1 } else { 1 + rng.usize(2) };
    let mut writers = vec![];
    for _ in 0..n_writers {
        let src = if !present.is_empty() && rng.chance(9, 10) { *rng.pick(&present) } else { rng.usize(n_keys) };
        let op = match rng.weighted(&[34, 16, 22, 16, 12]) {
            0 => WOp::Put { key: rng.usize(n_keys), data: gen_value(rng, &cfg, &mut serial) },
            1 => {
                let d = gen_value(rng, &cfg, &mut serial);
                WOp::Multipart { key: rng.usize(n_keys), parts: split_parts(rng, &d) }
            }
            2 => WOp::Copy { from: src, to: rng.usize(n_keys) },
            3 => WOp::Rename { from: src, to: rng.usize(n_keys) },
            _ => WOp::Delete { key: src },
        };
        let park = if small {
            Park::AfterPayload
        } else {
            match rng.weighted(&[70, 20, 10]) {
                0 => Park::AfterPayload,
                1 => Park::Steps(rng.below(5) as u32),
                _ => Park::NotStarted,
            }
        };
        writers.push((op, park));
    }
    Scenario {
        cfg,
        init,
        legacy,
        planted,
        leak_old,
        orphan_data: rng.chance(1, 4),
        writers,
        seed: rng.next_u64(),
    }
}

enum Out {
    Writer(Result<(), String>),
    Gc(Result<usize, String>),
}

async fn run_wop(w: Wrap, op: WOp) -> Out {
    let r = match &op {
        WOp::Put { key, data } => w.os.put(&Path::from(GKEYS[*key]), PutPayload::from(data.clone())).await.map(|_| ()),
        WOp::Multipart { key, parts } => do_multipart(w.os.as_ref(), &Path::from(GKEYS[*key]), parts).await,
        WOp::Copy { from, to } => w.os.copy(&Path::from(GKEYS[*from]), &Path::from(GKEYS[*to])).await,
        WOp::Rename { from, to } => w.os.rename(&Path::from(GKEYS[*from]), &Path::from(GKEYS[*to])).await,
        WOp::Delete { key } => w.os.delete(&Path::from(GKEYS[*key])).await,
    };
    Out::Writer(r.map_err(|e| err_name(&e).to_string()))
}

/// (task, mutation) for every landed mutation, in backend order.
fn mutations_by_task(rec: &RecStore) -> Vec<(u32, Mutation)> {
    let muts = rec.mutations();
    let mut out = vec![];
    for it in rec.log_items() {
        if let LogItem::Backend(ev) = it {
            if let Some(i) = ev.mutation {
                out.push((ev.task, muts[i].clone()));
            }
        }
    }
    out
}

/// What `key` may hold once everything completed, given which task switched (or removed) its
/// commit point last.
fn expected_final(sc: &Scenario, key: usize, last: Option<(u32, bool)>) -> Vec<Option<Vec<u8>>> {
    let n_w = sc.writers.len() as u32;
    let Some((task, is_put)) = last else {
        return vec![sc.init[key].clone()];
    };
    if task == 0 || task > n_w {
        // seeding, or the collector touched a commit point (never legal)
        return vec![];
    }
    if !is_put {
        return vec![None];
    }
    // values a copy source may have held while the copier ran
    let source_values = |from: usize, me: u32| -> Vec<Option<Vec<u8>>> {
        let mut v = vec![sc.init[from].clone()];
        for (j, (o, _)) in sc.writers.iter().enumerate() {
            if j as u32 + 1 == me {
                continue;
            }
            match o {
                WOp::Put { key, data } if *key == from => v.push(Some(data.clone())),
                WOp::Multipart { key, parts } if *key == from => v.push(Some(parts.concat())),
                WOp::Copy { from: f2, to } | WOp::Rename { from: f2, to } if *to == from => {
                    v.push(sc.init[*f2].clone());
                    // ... or what this copier itself wrote to that source earlier: not possible,
                    // a copier reads its source before it writes its target
                }
                _ => {}
            }
        }
        v.retain(|x| x.is_some());
        v
    };
    match &sc.writers[task as usize - 1].0 {
        WOp::Put { data, .. } => vec![Some(data.clone())],
        WOp::Multipart { parts, .. } => vec![Some(parts.concat())],
        WOp::Copy { from, .. } | WOp::Rename { from, .. } => source_values(*from, task),
        WOp::Delete { .. } => vec![],
    }
}

struct GcRunInfo {
    trace: Vec<usize>,
}

async fn gc_run(sc: &Scenario, chooser: &mut dyn Chooser, mode: &str, st: &mut Stats) -> Option<GcRunInfo> {
    let cfg = sc.cfg;
    let wn = cfg.name();
    let mut rng = Rng::new(sc.seed);
    let rec = RecStore::new();
    rec.set_record_reads(false);
    let w = Wrap::new(&cfg, rec.as_dyn());
    // --- setup (ungated, task 0)
    let mut init = sc.init.clone();
    for k in 0..GKEYS.len() {
        if let Some(v) = &sc.init[k] {
            if sc.legacy[k] {
                seed_legacy(&cfg, &rec, GKEYS[k], v, &mut rng).await;
            } else {
                w.os.put(&Path::from(GKEYS[k]), PutPayload::from(v.clone())).await.expect("seed put");
            }
        }
    }
    for (k, v) in &sc.leak_old {
        rec.set_fault(Fault::FailBefore(rec.attempts() + 2));
        let r = w.os.put(&Path::from(GKEYS[*k]), PutPayload::from(v.clone())).await;
        rec.reset_faults();
        if r.is_err() {
            st.inconclusive("GC scenario setup: overwrite with failing reclaim returned an error");
            return None;
        }
        init[*k] = Some(v.clone());
    }
    for k in &sc.planted {
        plant_stale_generation(&rec, GKEYS[*k], &mut rng).await;
    }
    if sc.orphan_data {
        rec.put(&Path::from("data/orphan"), PutPayload::from(rng.bytes(4))).await.expect("orphan");
    }
    let sc_eff = Scenario { init: init.clone(), ..sc.clone() };
    let setup_end = rec.landed() as usize;
    let ctx = |extra: serde_json::Value, ex: &ManualExec<'_, Out>, rec: &RecStore| {
        json!({
            "monitor": "gc_interleaving", "mode": mode, "wrapper": wn, "chunk_size": cfg.chunk,
            "initial": init.iter().enumerate().map(|(k, v)| format!("{}={}{}", GKEYS[k], show(v), if sc.legacy[k] { " (legacy layout)" } else { "" })).collect::<Vec<_>>(),
            "writers": sc.writers.iter().map(|(o, p)| format!("{} [{p:?}]", o.describe())).collect::<Vec<_>>(),
            "collector_task": sc.writers.len() + 1,
            "poll_trace(task index per step)": ex.trace,
            "backend_mutations(task:mutation)": mutations_by_task(rec).iter().skip(setup_end).map(|(t, m)| format!("t{t}: {}", m.describe())).collect::<Vec<_>>(),
            "what": extra,
        })
    };

    // --- phase 1: park the writers
    rec.set_gate(true);
    let mut ex: ManualExec<'_, Out> = ManualExec::new();
    for (op, _) in &sc.writers {
        ex.spawn(run_wop(w.clone(), op.clone()));
    }
    let mut parked_payload: Vec<Option<String>> = vec![None; sc.writers.len()];
    for (i, (_, park)) in sc.writers.iter().enumerate() {
        let max_polls = match park {
            Park::AfterPayload => 64,
            Park::Steps(n) => *n,
            Park::NotStarted => 0,
        };
        for _ in 0..max_polls {
            if ex.is_done(i) || !ex.enabled().contains(&i) {
                break;
            }
            let mark = rec.mark();
            ex.poll(i);
            let landed = rec.mutations_since(mark, Some("gen/"));
            if let Some(m) = landed.iter().rev().find(|m| matches!(m, Mutation::Put { .. } | Mutation::Copy { .. })) {
                parked_payload[i] = Some(m.path().to_string());
                if *park == Park::AfterPayload {
                    break;
                }
            }
        }
        if parked_payload[i].is_some() && !ex.is_done(i) {
            st.count("writers_parked_between_payload_and_pointer");
            st.count(&format!("parked:{}", sc.writers[i].0.kind()));
        }
    }
    // precondition: every generation written so far is older than the collector's floor
    let newest = rec
        .mutations()
        .iter()
        .filter_map(|m| generation_ts(m.path().as_ref()))
        .filter(|ts| *ts <= unix_ms())
        .max()
        .unwrap_or(0);
    if !wait_past(newest.max(unix_ms())) {
        st.inconclusive("wall clock did not advance (GC eligibility precondition)");
        return None;
    }
    st.count("oracle_pointer_resolves");
    let q1 = inspect(rec.inner().as_ref()).await;
    if !q1.dangling.is_empty() {
        st.violation(
            format!("C08/{wn}/gc/commit_point_without_payload"),
            ctx(json!({"at": "writers parked, collector not started", "dangling": q1.dangling}), &ex, &rec),
        );
        return None;
    }

    // --- phase 2: the collector against the parked writers
    // In every second scenario a task can also be parked between the RESPONSE of a read and what it
    // does with it: the collector's decisions rest on reads (listing aside: the commit-point
    // re-check), and a writer may commit and leave between such a read and the next check
    // (seeded change C08-6: in-flight registry consulted after the re-check instead of before).
    let post_reads = sc.seed % 2 == 0;
    rec.set_gate_after_reads(post_reads);
    if post_reads {
        st.count("gc_runs_with_post_read_parking");
    }
    let g = ex.spawn({
        let w = w.clone();
        async move { Out::Gc(w.collect_garbage().await.map_err(|e| format!("{e}"))) }
    });
    let mut steps = 0usize;
    let mut gc_result: Option<Result<usize, String>> = None;
    loop {
        if ex.all_done() {
            break;
        }
        let en = ex.enabled();
        if en.is_empty() {
            st.violation(
                format!("C08/{wn}/gc/deadlock"),
                ctx(json!({"unfinished_tasks": ex.unfinished()}), &ex, &rec),
            );
            return None;
        }
        steps += 1;
        if steps > 20_000 {
            st.inconclusive("GC interleaving: step cap reached");
            return None;
        }
        // choice 0 = the highest task index = the collector while it runs: the first DFS run lets
        // the collector finish against the parked writers, backtracking then moves writer steps
        // earlier one at a time
        let c = if en.len() == 1 { 0 } else { chooser.choose(en.len()).min(en.len() - 1) };
        let i = en[en.len() - 1 - c];
        let done = ex.poll(i);
        if done && i == g {
            if let Some(Out::Gc(r)) = ex.take_result(g) {
                gc_result = Some(r);
            }
            // quiescent point of the collector: nothing it removed may be referenced, and the
            // payloads of still-parked writers must have been spared
            st.count("oracle_pointer_resolves");
            let q = inspect(rec.inner().as_ref()).await;
            if !q.dangling.is_empty() {
                st.violation(
                    format!("C08/{wn}/gc/removed_referenced_payload"),
                    ctx(json!({"at": "collector finished", "dangling": q.dangling, "gc_result": format!("{gc_result:?}")}), &ex, &rec),
                );
                return None;
            }
            let by_task = mutations_by_task(&rec);
            for (wi, p) in parked_payload.iter().enumerate() {
                let Some(p) = p else { continue };
                if ex.is_done(wi) {
                    continue;
                }
                let committed = by_task
                    .iter()
                    .any(|(t, m)| *t == wi as u32 + 1 && m.path().as_ref().starts_with("meta/"));
                if committed {
                    continue;
                }
                st.count("oracle_inflight_payload_spared");
                if rec.inner().head(&Path::from(p.as_str())).await.is_err() {
                    st.violation(
                        format!("C08/{wn}/gc/removed_in_flight_payload"),
                        ctx(json!({"payload": p, "writer": sc.writers[wi].0.describe(),
                                   "note": "payload written, pointer switch pending, collector deleted it"}), &ex, &rec),
                    );
                    return None;
                }
            }
        }
    }
    rec.set_gate(false);
    rec.set_gate_after_reads(false);
    st.count("gc_interleavings_explored");
    st.eval();
    match &gc_result {
        Some(Ok(n)) => {
            if *n > 0 {
                st.count("gc_concurrent_runs_deleted_gt0");
                st.add("gc_concurrent_objects_deleted", *n as u64);
            }
        }
        Some(Err(e)) => {
            st.violation(format!("C08/{wn}/gc/collect_garbage_failed"), ctx(json!({"error": e}), &ex, &rec));
            return None;
        }
        None => {
            st.inconclusive("GC interleaving: collector result missing");
            return None;
        }
    }
    for i in 0..sc.writers.len() {
        match ex.take_result(i) {
            Some(Out::Writer(Ok(()))) => st.count("writer_ok"),
            Some(Out::Writer(Err(e))) => st.count(&format!("writer_err:{e}")),
            _ => {}
        }
    }

    // --- final state: every key reads what its last committed operation wrote
    let by_task = mutations_by_task(&rec);
    let cold = Wrap::new(&cfg, rec.inner());
    let mut finals = vec![];
    for (k, key) in GKEYS.iter().enumerate() {
        let meta_path = format!("meta/{key}");
        let last = by_task.iter().skip(setup_end).rev().find_map(|(t, m)| match m {
            Mutation::Put { path, .. } if path.as_ref() == meta_path => Some((*t, true)),
            Mutation::Delete { path, effective: true } if path.as_ref() == meta_path => Some((*t, false)),
            _ => None,
        });
        let allowed = expected_final(&sc_eff, k, last);
        let warm = view_key(w.os.as_ref(), key).await.read;
        let fresh = view_key(cold.os.as_ref(), key).await.read;
        st.count("oracle_final_value");
        for (which, r) in [("same instance", &warm), ("fresh instance", &fresh)] {
            let okv = r.as_model().map(|m| allowed.contains(&m)).unwrap_or(false);
            if !okv {
                st.violation(
                    format!("C08/{wn}/gc/final_value_wrong"),
                    ctx(json!({"key": key, "read_by": which, "read": r.show(),
                               "allowed": allowed.iter().map(show).collect::<Vec<_>>(),
                               "last_commit_by_task": last.map(|l| l.0)}), &ex, &rec),
                );
                return None;
            }
        }
        finals.push(fresh);
    }
    st.count("oracle_pointer_resolves");
    let q3 = inspect(rec.inner().as_ref()).await;
    if !q3.dangling.is_empty() {
        st.violation(
            format!("C08/{wn}/gc/removed_referenced_payload"),
            ctx(json!({"at": "all tasks finished", "dangling": q3.dangling}), &ex, &rec),
        );
        return None;
    }

    // --- a quiescent collection afterwards: same bytes, convergence, nothing left behind
    if !wait_past(unix_ms()) {
        st.inconclusive("wall clock did not advance (GC eligibility precondition)");
        return None;
    }
    let n1 = match w.collect_garbage().await {
        Ok(n) => n,
        Err(e) => {
            st.violation(format!("C08/{wn}/gc/collect_garbage_failed"), ctx(json!({"error": format!("{e}"), "run": "final"}), &ex, &rec));
            return None;
        }
    };
    if n1 > 0 {
        st.count("gc_final_runs_deleted_gt0");
    }
    let colder = Wrap::new(&cfg, rec.inner());
    let mut live = 0;
    for (k, key) in GKEYS.iter().enumerate() {
        let r = view_key(colder.os.as_ref(), key).await.read;
        st.count("oracle_same_bytes_after_gc");
        if r != finals[k] {
            st.violation(
                format!("C08/{wn}/gc/gc_changed_readable_bytes"),
                ctx(json!({"key": key, "before": finals[k].show(), "after": r.show(), "gc_deleted": n1}), &ex, &rec),
            );
            return None;
        }
        if matches!(r, Read::Bytes(_)) {
            live += 1;
        }
    }
    st.count("oracle_gc_converges");
    match w.collect_garbage().await {
        Ok(0) => {}
        other => {
            st.violation(
                format!("C08/{wn}/gc/gc_not_convergent"),
                ctx(json!({"first_run_deleted": n1, "second_run": format!("{other:?}")}), &ex, &rec),
            );
            return None;
        }
    }
    let q4 = inspect(rec.inner().as_ref()).await;
    st.count("oracle_no_leak_after_gc");
    if !q4.dangling.is_empty() || q4.payload_objects != live || q4.meta_docs != live {
        st.violation(
            format!("C08/{wn}/gc/gc_leaves_unreferenced_payloads"),
            ctx(json!({"payload_objects": q4.payload_objects, "commit_points": q4.meta_docs, "live_keys": live,
                       "dangling": q4.dangling}), &ex, &rec),
        );
        return None;
    }
    Some(GcRunInfo { trace: ex.trace.clone() })
}

/// Picks alternative 0 (the collector, see `gc_run`) with the given probability, else uniformly.
struct Biased {
    rng: Rng,
    first_per_mille: u64,
}

impl Chooser for Biased {
    fn choose(&mut self, n: usize) -> usize {
        if self.rng.below(1000) < self.first_per_mille { 0 } else { self.rng.usize(n) }
    }
}

fn gc_case(case: u64, rng: &mut Rng, st: &mut Stats, dfs_budget: u64, rand_runs: u64, small: bool, two: bool) {
    let mut sc = gen_scenario(rng, small);
    if two {
        // a second parked writer for the DFS over 2-writer configurations
        let extra = gen_scenario(rng, true);
        sc.writers.push(extra.writers[0].clone());
    }
    let salt = case.wrapping_mul(0x9e3779b97f4a7c15);
    let mut runs = 0u64;
    let mut exhausted = false;
    if dfs_budget > 0 {
        let mut dfs = DfsChooser::new();
        loop {
            dfs.begin_run();
            let info = block_on(gc_run(&sc, &mut dfs, "DFS", st));
            runs += 1;
            let Some(info) = info else { return };
            st.set("gc_distinct_interleavings", vcore::hash_debug(&info.trace) ^ salt);
            st.max("max_gc_schedule_len", info.trace.len() as u64);
            if !dfs.next_run() {
                exhausted = true;
                break;
            }
            if runs >= dfs_budget {
                break;
            }
        }
        st.count(if exhausted { "gc_schedule_spaces_exhausted" } else { "gc_schedule_spaces_truncated" });
    }
    if !exhausted {
        for r in 0..rand_runs {
            // collector-first, collector-biased and uniform random schedules in turn
            let mut rc = Biased { rng: rng.fork(), first_per_mille: [1000, 800, 0][(r % 3) as usize] };
            let info = block_on(gc_run(&sc, &mut rc, "random", st));
            runs += 1;
            let Some(info) = info else { return };
            st.set("gc_distinct_interleavings", vcore::hash_debug(&info.trace) ^ salt);
            st.max("max_gc_schedule_len", info.trace.len() as u64);
        }
    }
    for (o, _) in &sc.writers {
        st.count(&format!("gc_vs:{}", o.kind()));
    }
    st.count(&format!("gc_scenarios:{}", sc.cfg.name()));
    st.distinct(vcore::hash_debug(&(&sc.writers, &sc.init, sc.cfg.enc, &sc.planted)));
    if case < 2 {
        st.sample(|| {
            json!({"monitor": "gc_interleaving", "wrapper": sc.cfg.name(),
               "writers": sc.writers.iter().map(|(o, p)| format!("{} [{p:?}]", o.describe())).collect::<Vec<_>>(),
               "stale_generations_planted": sc.planted.len(), "real_stale_generations": sc.leak_old.len(),
               "schedules": runs, "exhaustive": exhausted})
        });
    }
}

// ---------------------------------------------------------------------------------------------

fn main() {
    // tasks are polled by hand in this binary: see vcore::run::use_plain_block_on
    vcore::run::use_plain_block_on();
    let mut run = Run::from_args(
        "C08",
        "fault_enumeration",
        "operation sequences over 4 keys (2 wrappers, chunk sizes 1..256K, 0-2 keys in the legacy \
         layout); a sequence is non-trivial when it uses >= 5 operation kinds and has >= 20 crash \
         points (distinct by wrapper, chunk size and operation list); GC scenarios are distinct by \
         (writers, initial state, wrapper), interleavings by poll trace",
    );
    run.assume("crash model: each inner-store mutation is atomic, the sequence is interruptible after any of them (the crate's own model)");
    run.assume("GC eligibility is established on purpose: the wall clock is advanced >= 2 ms past every generation before a collection whose effect is judged (scenario precondition, never a verdict)");
    run.assume("single-writer contract: all writers and the collector of one scenario share one wrapper instance (one process)");
    run.assume("legacy EncryptedStore objects are the pre-auth layout (data/<key>, no seal); the sealed-v1 0.9.x layout is not generated (its AAD would have to be re-implemented in the harness)");
    let t = run.tier;
    if run.wants("crash") {
        run.parallel("crash_meta", t.pick(2000, 40_000), 0.25, |c, rng, st| crash_case(c, rng, st, false, t.pick(12, 16)));
        run.parallel("crash_enc", t.pick(2000, 40_000), 0.35, |c, rng, st| crash_case(c, rng, st, true, t.pick(12, 16)));
    }
    if run.wants("gc") {
        run.parallel("gc_dfs", t.pick(48, 600), 0.4, |c, rng, st| {
            gc_case(c, rng, st, t.pick(400, 2500), t.pick(30, 150), true, false)
        });
        run.parallel("gc_dfs2", t.pick(16, 300), 0.4, |c, rng, st| {
            gc_case(c, rng, st, t.pick(300, 3000), t.pick(30, 150), true, true)
        });
        run.parallel("gc_rand", t.pick(800, 20_000), 0.9, |c, rng, st| {
            gc_case(c, rng, st, 0, t.pick(12, 40), false, false)
        });
    }
    run.stats.add("multipart_completions_retried_after_lost_ack", LOST_ACK_RETRIES.load(std::sync::atomic::Ordering::Relaxed));
    run.stats.add("multipart_retried_completions_ok", LOST_ACK_RETRIES_OK.load(std::sync::atomic::Ordering::Relaxed));
    run.floor("multipart_retried_completions_ok", 100);
    run.floor("crash_points", 2000);
    for k in ["put", "multipart", "copy", "rename", "delete", "gc", "legacy_migration", "put_with_backend_fault"] {
        run.floor(&format!("crash_inflight:{k}"), 20);
    }
    run.floor("inflight_read_old", 50);
    run.floor("inflight_read_new", 50);
    run.floor("gc_after_crash_deleted_gt0", 100);
    run.floor("gc_in_sequence_deleted_gt0", 10);
    run.floor("rename_crash_both_present", 5);
    run.floor("gc_interleavings_explored", 500);
    run.floor_set("gc_distinct_interleavings", 200);
    run.floor("gc_schedule_spaces_exhausted", 3);
    run.floor("gc_runs_with_post_read_parking", 150);
    run.floor("writers_parked_between_payload_and_pointer", 200);
    run.floor("oracle_inflight_payload_spared", 100);
    run.floor("gc_concurrent_runs_deleted_gt0", 100);
    for k in ["put", "multipart", "copy", "rename"] {
        run.floor(&format!("parked:{k}"), 5);
    }
    run.floor("gc_scenarios:meta", 10);
    run.floor("gc_scenarios:enc", 10);
    run.finish();
}

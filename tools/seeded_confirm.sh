#!/usr/bin/env bash
# Confirms an independently produced breaking change before it is kept under /verif/seeded/:
#   1. the demonstration PASSES on the pristine tree, 2. FAILS with the patch applied,
#   3. the workspace still builds and the existing test suite still passes with the patch.
# usage: tools/seeded_confirm.sh <dir with patch.diff, meta.json, demo files>   (works in the scratch worktree $WT)
# Prints CONFIRMED / REJECTED <why>; writes <dir>/confirm.json.
set -u
DIR="$(readlink -f "${1:?dir}")"
WT="${WT:-/tmp/wt-confirm}"
export CARGO_NET_OFFLINE=true CARGO_PROFILE_DEV_DEBUG=0 CARGO_PROFILE_TEST_DEBUG=0 CARGO_INCREMENTAL=0
[ -d "$WT" ] || git -C /repo worktree add --detach "$WT" HEAD >/dev/null 2>&1
reset() { git -C "$WT" checkout -q --detach "$(git -C /repo rev-parse HEAD)"; git -C "$WT" checkout -q -- .; git -C "$WT" clean -fdq -e target; }
put_demo() {
  python3 - "$DIR" "$WT" <<'EOF'
import json,sys,os,shutil
d,wt=sys.argv[1:3]
m=json.load(open(os.path.join(d,"meta.json")))
for src,dst in m.get("demo_files",{}).items():
    dstp=os.path.join(wt,dst); os.makedirs(os.path.dirname(dstp),exist_ok=True)
    shutil.copy(os.path.join(d,src),dstp)
EOF
}
DEMO=$(python3 -c "import json;print(json.load(open('$DIR/meta.json'))['demo_cmd'])")
finish() { # verdict why
  python3 - "$DIR" "$1" "$2" <<'EOF'
import json,sys,os,subprocess
d,verdict,why=sys.argv[1:4]
json.dump({"verdict":verdict,"why":why,"repo_head":subprocess.run(["git","-C","/repo","rev-parse","--short","HEAD"],capture_output=True,text=True).stdout.strip()},
          open(os.path.join(d,"confirm.json"),"w"),indent=1)
EOF
  echo "$1 $(basename "$(dirname "$DIR")")/$(basename "$DIR"): $2"; reset; [ "$1" = CONFIRMED ]; exit $?
}
reset; put_demo
( cd "$WT" && timeout 3000 bash -c "$DEMO" ) > "$DIR/confirm-demo-pristine.log" 2>&1 || finish REJECTED "demonstration does not pass on the pristine tree"
git -C "$WT" apply "$DIR/patch.diff" || finish REJECTED "patch does not apply to /repo HEAD"
if ( cd "$WT" && timeout 3000 bash -c "$DEMO" ) > "$DIR/confirm-demo-patched.log" 2>&1; then finish REJECTED "demonstration still passes with the patch"; fi
grep -qE "error(\[E[0-9]+\])?: |could not compile" "$DIR/confirm-demo-patched.log" && ! grep -qE "test result: FAILED|panicked at|FAILED" "$DIR/confirm-demo-patched.log" && finish REJECTED "demonstration does not compile with the patch"
# existing suite, unedited, with the patch (demo removed again so that only existing tests count)
git -C "$WT" clean -fdq -e target
( cd "$WT" && timeout 7200 cargo nextest run --workspace --no-fail-fast --retries 2 --test-threads 8 --offline ) > "$DIR/confirm-suite.log" 2>&1
RC=$?
SUMMARY=$(grep -E "Summary|tests run" "$DIR/confirm-suite.log" | tail -1)
[ $RC -eq 0 ] || finish REJECTED "existing test suite fails with the patch: $SUMMARY $(grep -E '^\s+(FAIL|TIMEOUT|SIGABRT)' "$DIR/confirm-suite.log" | head -5 | tr '\n' ';')"
finish CONFIRMED "demo passes pristine, fails patched; suite: $SUMMARY"

//! Harness-side tokenizer for KIP text and the metamorphic renderers built on it.
//!
//! The tokenizer is deliberately independent of the parser under test. It knows exactly four
//! lexical facts, all taken from KIPSyntax.md section 1.5: `"..."` strings with backslash escapes,
//! `//` comments to end of line, `?name` / `:name` sigil tokens (a variable keeps its dot path and
//! `["key"]` steps, which the grammar spells without inner separators) and identifiers
//! `[A-Za-z_][A-Za-z0-9_]*`. Everything else is a one- or two-character punctuation token.
//!
//! On top of it: `Lexed::render` re-renders the token sequence with other keyword case, other
//! inter-token trivia (whitespace and comments) or with optional whitespace removed. The rules
//! which token may change case and which gap may change are conservative (see `flippable`,
//! `may_insert`, `may_remove`): a relation that the harness is not sure about is not generated.

use vcore::Rng;

#[derive(Clone, Copy, Debug, PartialEq, Eq)]
pub enum Kind {
    /// bare identifier (keyword, function name, object key, unset field name, `id`)
    Ident,
    /// `?name` with its path steps
    Var,
    /// `:name`
    Param,
    /// `"..."` (possibly unterminated at end of input)
    Str,
    /// numeric literal with its sign
    Num,
    /// punctuation / operator / any other character
    Punct,
}

#[derive(Clone, Debug)]
pub struct Token {
    pub kind: Kind,
    pub text: String,
    /// trivia (whitespace and comments) between the previous token and this one
    pub gap: String,
}

#[derive(Clone, Debug, Default)]
pub struct Lexed {
    pub tokens: Vec<Token>,
    /// trivia after the last token
    pub tail: String,
}

/// Every word the three grammars use as a keyword (collected from KIPSyntax.md sections 2-4).
pub const KEYWORDS: &[&str] = &[
    "FIND", "WHERE", "AS", "OF", "SEQ", "TX", "TIME", "FOR", "WITH", "EPISTEMIC", "ORDER", "BY",
    "ASC", "DESC", "LIMIT", "CURSOR", "DISTINCT", "FILTER", "NOT", "OPTIONAL", "UNION", "CONCEPT",
    "PROPOSITION", "ASSERTION", "EVIDENCE", "ACTIVITY", "STRUCTURAL", "BELIEF", "SLOT", "MUTATE",
    "CREATE", "UPSERT", "ENSURE", "ASSERT", "SUPERSEDING", "UPDATE", "RETRACT", "SUPERSEDE",
    "CORRECT", "TRANSITION", "TO", "SET", "RETENTION", "ARCHIVE", "TOMBSTONE", "PURGE",
    "REFERENCE", "POLICY", "CONFIRM", "MERGE", "INTO", "EXPECT", "VERSION", "STATE", "CLIENT",
    "KEY", "TYPE", "NAME", "MATCH", "FIELDS", "ATTRIBUTES", "FACET", "UNSET", "DESCRIBE",
    "PRIMER", "MODE", "PROTOCOL", "EXECUTION", "CONTEXT", "CAPABILITIES", "PROJECTION",
    "CAPABILITY", "SPACE", "SCHEMA", "ENVIRONMENT", "SNAPSHOT", "PREDICATE", "FIELD", "PACKAGE",
    "COMPATIBILITY", "FROM", "ERROR", "CAPSULE", "TRUST", "ACCESS", "TRANSACTION", "IDEMPOTENCY",
    "LIST", "SPACES", "TYPES", "PREDICATES", "FACETS", "POLICIES", "PACKAGES", "STATUS",
    "HISTORY", "ELEMENT", "CHANGES", "SINCE", "AFTER", "VERIFY", "RECEIPT", "BLOB", "CHECKPOINT",
    "VALIDATE", "KQL", "KML", "IMPORT", "PLAN", "PREVIEW", "EXPORT", "SEARCH", "COGNITION",
    "THRESHOLD",
];

/// Registered function names (aggregates, filter functions, update functions); KIPSyntax.md
/// writes them in upper case next to the keywords and the parser matches them case-insensitively.
pub const FUNCTIONS: &[&str] = &[
    "COUNT", "SUM", "AVG", "MIN", "MAX", "CONTAINS", "STARTS_WITH", "ENDS_WITH", "REGEX", "IN",
    "IS_NULL", "IS_NOT_NULL", "IS_LITERAL", "IS_ELEMENT", "IS_KIND", "LITERAL_TYPE", "ADD", "MUL",
    "CLAMP", "COALESCE",
];

pub fn is_keyword(word: &str) -> bool {
    let up = word.to_ascii_uppercase();
    KEYWORDS.contains(&up.as_str())
}

pub fn is_function(word: &str) -> bool {
    let up = word.to_ascii_uppercase();
    FUNCTIONS.contains(&up.as_str())
}

fn ident_start(c: char) -> bool {
    c.is_ascii_alphabetic() || c == '_'
}

fn ident_continue(c: char) -> bool {
    c.is_ascii_alphanumeric() || c == '_'
}

/// End (exclusive) of a string literal starting at `i` (which holds `"`).
fn string_end(b: &[char], i: usize) -> usize {
    let mut j = i + 1;
    while j < b.len() {
        match b[j] {
            '\\' => j += 2,
            '"' => return j + 1,
            _ => j += 1,
        }
    }
    b.len()
}

fn ident_end(b: &[char], i: usize) -> usize {
    let mut j = i;
    while j < b.len() && ident_continue(b[j]) {
        j += 1;
    }
    j
}

pub fn lex(text: &str) -> Lexed {
    let b: Vec<char> = text.chars().collect();
    let mut out = Lexed::default();
    let mut i = 0;
    loop {
        // trivia
        let g0 = i;
        loop {
            while i < b.len() && b[i].is_whitespace() {
                i += 1;
            }
            if i + 1 < b.len() && b[i] == '/' && b[i + 1] == '/' {
                while i < b.len() && b[i] != '\n' {
                    i += 1;
                }
                continue;
            }
            break;
        }
        let gap: String = b[g0..i].iter().collect();
        if i >= b.len() {
            out.tail = gap;
            break;
        }
        let t0 = i;
        let c = b[i];
        let kind;
        if c == '"' {
            i = string_end(&b, i);
            kind = Kind::Str;
        } else if c == '?' && i + 1 < b.len() && ident_start(b[i + 1]) {
            i = ident_end(&b, i + 1);
            // path steps, glued
            loop {
                if i + 1 < b.len() && b[i] == '.' && ident_start(b[i + 1]) {
                    i = ident_end(&b, i + 1);
                    continue;
                }
                if i < b.len() && b[i] == '[' {
                    let mut j = i + 1;
                    while j < b.len() && b[j].is_whitespace() {
                        j += 1;
                    }
                    if j < b.len() && b[j] == '"' {
                        let mut k = string_end(&b, j);
                        while k < b.len() && b[k].is_whitespace() {
                            k += 1;
                        }
                        if k < b.len() && b[k] == ']' {
                            i = k + 1;
                            continue;
                        }
                    }
                }
                break;
            }
            kind = Kind::Var;
        } else if c == ':' && i + 1 < b.len() && ident_start(b[i + 1]) {
            i = ident_end(&b, i + 1);
            kind = Kind::Param;
        } else if ident_start(c) {
            i = ident_end(&b, i);
            kind = Kind::Ident;
        } else if c.is_ascii_digit()
            || ((c == '-' || c == '+' || c == '.')
                && i + 1 < b.len()
                && (b[i + 1].is_ascii_digit()
                    || (c != '.' && b[i + 1] == '.' && i + 2 < b.len() && b[i + 2].is_ascii_digit())))
        {
            i += 1;
            while i < b.len() && (b[i].is_ascii_digit() || b[i] == '.') {
                i += 1;
            }
            if i < b.len() && (b[i] == 'e' || b[i] == 'E') {
                let mut j = i + 1;
                if j < b.len() && (b[j] == '+' || b[j] == '-') {
                    j += 1;
                }
                if j < b.len() && b[j].is_ascii_digit() {
                    while j < b.len() && b[j].is_ascii_digit() {
                        j += 1;
                    }
                    i = j;
                }
            }
            kind = Kind::Num;
        } else {
            let two: String = b[i..(i + 2).min(b.len())].iter().collect();
            if matches!(two.as_str(), "==" | "!=" | "<=" | ">=" | "&&" | "||") {
                i += 2;
            } else {
                i += 1;
            }
            kind = Kind::Punct;
        }
        out.tokens.push(Token {
            kind,
            text: b[t0..i].iter().collect(),
            gap,
        });
    }
    out
}

/// Trivia pieces used for replacement / insertion. Every piece is non-empty, consists of ASCII
/// whitespace and `//` comments only, and every comment is closed by a newline. Comments carry
/// quotes and brackets on purpose (they must stay invisible to the parser and to its budget scan).
pub const TRIVIA: &[&str] = &[
    " ",
    "  ",
    "\n",
    "\t",
    "\r\n",
    " \n\t ",
    "// c\n",
    " // note\n",
    "\n//\n",
    "// \" unbalanced quote\n",
    " // ( { [ \"\n ",
    "// ) } ] \\\" ' ?x :p FIND\n",
    "//// ((((((((((((((((((((((((((((((((((((((((((((((((((((((((((((((((((((((((\n",
    "// a\n// b \"\"\"\n",
];

#[derive(Clone, Copy, Debug, PartialEq, Eq)]
pub enum Variant {
    /// keyword / function-name case changed, trivia untouched
    Case,
    /// trivia replaced and inserted, case untouched
    Trivia,
    /// optional whitespace next to punctuation removed
    Compact,
    /// case + trivia
    Both,
}

impl Variant {
    pub const ALL: [Variant; 4] = [Variant::Case, Variant::Trivia, Variant::Compact, Variant::Both];
    pub fn name(self) -> &'static str {
        match self {
            Variant::Case => "case",
            Variant::Trivia => "trivia",
            Variant::Compact => "compact",
            Variant::Both => "case+trivia",
        }
    }
}

const OPCHARS: &str = "<>=!&|/-+.";

fn is_bracket_open(s: &str) -> bool {
    matches!(s, "(" | "[" | "{")
}

impl Lexed {
    /// The exact source text.
    pub fn source(&self) -> String {
        let mut s = String::new();
        for t in &self.tokens {
            s.push_str(&t.gap);
            s.push_str(&t.text);
        }
        s.push_str(&self.tail);
        s
    }

    /// May token `i` change case without changing the meaning of an accepted command?
    /// Only bare identifiers from the keyword / function lists that are not in a key position
    /// (`word :`) and not in a field-name list position (`word ,` / `word }`); ASC / DESC may be
    /// followed by a comma.
    pub fn flippable(&self, i: usize) -> bool {
        let t = &self.tokens[i];
        if t.kind != Kind::Ident {
            return false;
        }
        let kw = is_keyword(&t.text);
        if !kw && !is_function(&t.text) {
            return false;
        }
        let next = self.tokens.get(i + 1).map(|n| n.text.as_str()).unwrap_or("");
        // `key :null` / `name :CLAMP(..)` are `key` `:` `value` for the grammar although the
        // harness tokenizer sees a parameter: a word in entry position (after `{` or `,`) that is
        // followed by something that looks like a parameter is left alone
        if matches!(next, ":null" | ":true" | ":false") {
            return false;
        }
        if self.tokens.get(i + 1).is_some_and(|n| n.kind == Kind::Param) {
            let prev = if i > 0 { self.tokens[i - 1].text.as_str() } else { "" };
            if matches!(prev, "{" | ",") {
                return false;
            }
        }
        if !kw {
            // a function name is a function name only in call position
            return next == "(";
        }
        let up = t.text.to_ascii_uppercase();
        match next {
            ":" => false,
            "," => up == "ASC" || up == "DESC",
            "}" | "]" => false,
            _ => true,
        }
    }

    /// May trivia be inserted into the (empty) gap before token `i`?
    fn may_insert(&self, i: usize) -> bool {
        if i == 0 {
            return true;
        }
        let prev = &self.tokens[i - 1];
        let t = &self.tokens[i];
        // `"pred"{m,n}`: the hop quantifier is written glued to its predicate atom
        if t.text == "{" && matches!(prev.kind, Kind::Str | Kind::Param | Kind::Var) {
            return false;
        }
        // never split what might be one operator or one number
        if prev.kind == Kind::Punct
            && t.kind == Kind::Punct
            && prev.text.chars().all(|c| OPCHARS.contains(c))
            && t.text.chars().all(|c| OPCHARS.contains(c))
        {
            return false;
        }
        if prev.kind == Kind::Punct && OPCHARS.contains(prev.text.as_str()) && t.kind == Kind::Num {
            return false;
        }
        true
    }

    /// May the (non-empty) gap before token `i` be removed completely?
    fn may_remove(&self, i: usize) -> bool {
        if i == 0 {
            return true;
        }
        let prev = &self.tokens[i - 1];
        let t = &self.tokens[i];
        if prev.kind != Kind::Punct && t.kind != Kind::Punct {
            return false;
        }
        // only structural punctuation is trusted here
        let structural = |s: &str| matches!(s, "(" | ")" | "{" | "}" | "[" | "]" | "," );
        let p_ok = prev.kind == Kind::Punct && structural(&prev.text);
        let t_ok = t.kind == Kind::Punct && structural(&t.text);
        if !p_ok && !t_ok {
            return false;
        }
        if prev.kind == Kind::Punct && !structural(&prev.text) {
            return false;
        }
        if t.kind == Kind::Punct && !structural(&t.text) {
            return false;
        }
        // do not create a glued `"pred"{`
        if is_bracket_open(&t.text) && t.text == "{" && matches!(prev.kind, Kind::Str | Kind::Param | Kind::Var) {
            return false;
        }
        true
    }

    fn flip(word: &str, rng: &mut Rng) -> String {
        match rng.below(4) {
            0 => word.to_ascii_lowercase(),
            1 => word.to_ascii_uppercase(),
            2 => {
                let mut c = word.chars();
                match c.next() {
                    Some(f) => f.to_ascii_uppercase().to_string() + &c.as_str().to_ascii_lowercase(),
                    None => String::new(),
                }
            }
            _ => word
                .chars()
                .map(|c| if rng.bool() { c.to_ascii_uppercase() } else { c.to_ascii_lowercase() })
                .collect(),
        }
    }

    fn trivia(rng: &mut Rng) -> String {
        let mut s = String::new();
        let n = 1 + rng.usize(2);
        for _ in 0..n {
            s.push_str(*rng.pick(TRIVIA));
        }
        s
    }

    /// Renders a meaning-preserving variant. Returns the text and the number of places changed.
    pub fn render(&self, v: Variant, rng: &mut Rng) -> (String, usize) {
        let mut s = String::new();
        let mut changed = 0;
        let do_case = matches!(v, Variant::Case | Variant::Both);
        let do_trivia = matches!(v, Variant::Trivia | Variant::Both);
        let do_compact = v == Variant::Compact;
        for (i, t) in self.tokens.iter().enumerate() {
            // gap
            if do_trivia {
                if !t.gap.is_empty() {
                    if rng.chance(2, 3) {
                        s.push_str(&Self::trivia(rng));
                        changed += 1;
                    } else {
                        s.push_str(&t.gap);
                    }
                } else if self.may_insert(i) && rng.chance(1, 2) {
                    s.push_str(&Self::trivia(rng));
                    changed += 1;
                }
            } else if do_compact {
                if !t.gap.is_empty() && self.may_remove(i) {
                    changed += 1;
                } else {
                    s.push_str(&t.gap);
                }
            } else {
                s.push_str(&t.gap);
            }
            // token
            if do_case && self.flippable(i) {
                let f = Self::flip(&t.text, rng);
                if f != t.text {
                    changed += 1;
                }
                s.push_str(&f);
            } else {
                s.push_str(&t.text);
            }
        }
        if do_trivia && rng.bool() {
            s.push_str(&Self::trivia(rng));
            // a final comment without newline is legal too
            if rng.chance(1, 4) {
                s.push_str("// eof \" (");
            }
            changed += 1;
        } else if do_compact {
            if !self.tail.is_empty() {
                changed += 1;
            }
        } else {
            s.push_str(&self.tail);
        }
        (s, changed)
    }

    /// Bracket nesting depth as the grammar sees it: brackets inside strings and comments do
    /// not count. Returns (max depth, balanced).
    pub fn bracket_depth(&self) -> (usize, bool) {
        let mut stack: Vec<char> = vec![];
        let mut max = 0;
        let mut balanced = true;
        for t in &self.tokens {
            if t.kind == Kind::Var {
                // `?x["k"]` opens and closes one bracket per key step
                if t.text.contains('[') {
                    max = max.max(stack.len() + 1);
                }
                continue;
            }
            if t.kind != Kind::Punct {
                continue;
            }
            match t.text.as_str() {
                "(" | "[" | "{" => {
                    stack.push(t.text.chars().next().unwrap());
                    max = max.max(stack.len());
                }
                ")" | "]" | "}" => {
                    let want = match t.text.as_str() {
                        ")" => '(',
                        "]" => '[',
                        _ => '{',
                    };
                    if stack.last() == Some(&want) {
                        stack.pop();
                    } else {
                        balanced = false;
                    }
                }
                _ => {}
            }
        }
        if !stack.is_empty() {
            balanced = false;
        }
        (max, balanced)
    }
}

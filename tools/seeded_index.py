#!/usr/bin/env python3
"""Regenerates /verif/seeded/INDEX.md from seeded/<id>/{meta,confirm,result}.json."""
import glob, json, os

rows = []
for d in sorted(glob.glob("/verif/seeded/*/")):
    sid = os.path.basename(d.rstrip("/"))
    mp = os.path.join(d, "meta.json")
    if not os.path.exists(mp):
        continue
    m = json.load(open(mp))
    c = json.load(open(os.path.join(d, "confirm.json"))) if os.path.exists(os.path.join(d, "confirm.json")) else {}
    r = json.load(open(os.path.join(d, "result.json"))) if os.path.exists(os.path.join(d, "result.json")) else {"runs": []}
    runs = r.get("runs", [])
    # latest run per (check, seed, tier)
    caught_by = sorted({x["check"] for x in runs if x.get("caught")})
    missed_by = sorted({x["check"] for x in runs if not x.get("caught")} - set(caught_by))
    sigs = sorted({s for x in runs if x.get("caught") for s in x.get("signatures", [])})[:3]
    note = m.get("strengthening", "")
    if m.get("obsolete_since"):
        c = dict(c); c["verdict"] = "obsolete since " + m["obsolete_since"] + " (behaviour-neutral on the repaired tree)"
    rows.append((sid, m.get("property"), m.get("title", "")[:110], m.get("needs", "")[:160],
                 c.get("verdict", "not confirmed yet"), ", ".join(caught_by) or "-", ", ".join(missed_by) or "-",
                 "; ".join(sigs), note))

out = ["# Independently seeded breaking changes", "",
       "Each directory holds `patch.diff` (the change, never committed to /repo), the demonstration, `meta.json`",
       "(what it breaks, what it needs to manifest, what the seeding agent ran), `confirm.json` (my own confirmation in a",
       "scratch worktree: demo passes on the pristine tree, fails with the patch, the unedited repository suite passes with",
       "the patch) and `result.json` (exit codes and violation signatures of the checks run against it with",
       "`tools/seeded_eval.sh`, which applies the patch in a scratch worktree and points a copy of the harness at it).",
       "The seeding agents saw only the property text and a worktree of /repo, nothing of /verif.", "",
       "| id | property | change | needs | confirmed | caught by (quick) | first signatures | strengthening it triggered |",
       "|---|---|---|---|---|---|---|---|"]
for sid, prop, title, needs, conf, caught, missed, sigs, note in rows:
    out.append(f"| {sid} | {prop} | {title} | {needs} | {conf} | {caught}{' (missed by: ' + missed + ')' if missed != '-' and caught == '-' else ''} | {sigs} | {note} |")
n = len(rows)
nc = sum(1 for r in rows if r[5] != "-" or "obsolete" in r[4])
out += ["", f"{n} changes, {nc} reported by at least one registered check in the quick tier (after the strengthening noted in the last column)."]
open("/verif/seeded/INDEX.md", "w").write("\n".join(out) + "\n")
print(f"{n} seeded changes, {nc} caught")

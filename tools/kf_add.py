#!/usr/bin/env python3
"""usage: kf_add.py fixed|findings <entries.json>   appends entries to known_findings.json"""
import json, sys
kind, f = sys.argv[1], sys.argv[2]
k = json.load(open('/verif/known_findings.json'))
for e in json.load(open(f)):
    k[kind].append(e)
json.dump(k, open('/verif/known_findings.json', 'w'), indent=1)
print(kind, len(k[kind]))

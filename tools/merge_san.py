#!/usr/bin/env python3
"""Folds the results of the sanitizer / interpreter passes of one property (logs/san/<ID>.<engine>.status.json,
logs/san/<ID>.<engine>.json, MIRI summary lines) into evidence/<ID>.json under coverage.sanitizer_passes.
usage: merge_san.py <ID> <root>.  Exit 0 = merged, 2 = nothing to merge into."""
import glob, json, os, re, sys

pid, root = sys.argv[1], sys.argv[2]
main = os.path.join(root, "evidence", f"{pid}.json")
if not os.path.exists(main):
    print(f"INCONCLUSIVE property={pid} no evidence file to merge sanitizer passes into")
    sys.exit(2)
ev = json.load(open(main))
passes = []
for sf in sorted(glob.glob(os.path.join(root, "logs", "san", f"{pid}.*.status.json"))):
    st = json.load(open(sf))
    eng = st["engine"]
    entry = dict(st)
    tagged = os.path.join(root, "logs", "san", f"{pid}.{eng}.json")
    if os.path.exists(tagged):
        t = json.load(open(tagged))
        cov = t.get("coverage", {})
        entry["evaluations"] = cov.get("evaluations", 0)
        entry["distinct_nontrivial"] = cov.get("distinct_nontrivial", 0)
        entry["counters"] = cov.get("counters", {})
        entry["distinct_sets"] = cov.get("distinct_sets", {})
        entry["monitor_verdict"] = cov.get("verdict")
        entry["seed"] = t.get("seed")
    log = os.path.join(root, "logs", "san", f"{pid}.{eng}.log")
    if eng == "miri" and os.path.exists(log):
        done = [l.strip() for l in open(log, errors="replace") if l.startswith(f"MIRI-{pid} done")]
        entry["scheduler_seeds_completed"] = len(done)
        tot = {}
        for l in done:
            for k, v in re.findall(r"(\w+)=(\d+)", l):
                if k == "seed":  # the harness seed (same workload in every scheduler seed), not a count
                    entry["seed"] = int(v)
                elif k.startswith("max_"):
                    tot[k] = max(tot.get(k, 0), int(v))
                else:
                    tot[k] = tot.get(k, 0) + int(v)
        entry["totals_over_seeds"] = tot
        entry["evaluations"] = len(done)  # executions: one per Miri scheduler seed
        entry["sample_summary_line"] = done[0] if done else None
    passes.append(entry)
cov = ev.setdefault("coverage", {})
cov["sanitizer_passes"] = passes
if passes:
    # a pass that executed nothing is inconclusive, never a silent success
    for p in passes:
        if p["status"] == "clean" and p["engine"] != "miri" and p.get("evaluations", 0) == 0:
            p["status"] = "inconclusive"
            p["note"] = "the instrumented run evaluated nothing"
            cov.setdefault("inconclusive", []).append(f"{p['engine']} pass evaluated nothing")
            print(f"INCONCLUSIVE property={pid} {p['engine']} pass evaluated nothing")
    worst = "held_on_observed"
    if any(p["status"] == "violated" for p in passes):
        worst = "violated"
    elif any(p["status"] == "inconclusive" for p in passes):
        worst = "inconclusive"
    if worst == "violated" or (worst == "inconclusive" and cov.get("verdict") == "held_on_observed"):
        cov["verdict"] = worst
json.dump(ev, open(main, "w"), indent=1)
rc = 2 if any(p["status"] == "inconclusive" for p in passes) else 0
sys.exit(rc if not any(p["status"] == "violated" for p in passes) else 0)

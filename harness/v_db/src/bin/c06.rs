//! C06 - Closed, deleted, poisoned or read-only handles never write; cancel = crash.
//!  silence  after every terminal transition (close, close_collection, delete_collection, poison by
//!           cancellation, poison by a failed flush) and in both read-only modes, every mutating
//!           API is called on a retained handle: typed rejection, never Active again, and the
//!           recording store shows no effective mutation under the collection prefix;
//!  queued   1-2 operations in flight or queued when close / close_collection / delete_collection
//!           starts, under enumerated schedules: admitted operations are reflected (close) or
//!           erased (delete), nothing writes after the transition returned;
//!  cancel   every mutating API is polled exactly k times (k = 1, 2, ... until it completes) on
//!           a gated store and then dropped: the handle is unchanged-and-Active or Poisoned, a
//!           poisoned handle rejects everything and writes nothing, and reopening through the
//!           database yields the old or the new state in full (C01 document oracle + C02 audit);
//!           database-level APIs are cancelled the same way and a retry must complete.
//!  queued_poison  a call issued while a mutation is in flight that is then dropped (poison) or while
//!           the handle / database turns read-only: if it had not reached the backend it is refused.
//!  gate_queue  a holder of the EXCLUSIVE operation gate (flush, database flush, compactions,
//!           reconcile, or the transition call itself) is parked at each of its backend calls; calls
//!           of every kind are issued (they wait at the gate), the transition is performed (read-only
//!           on the collection / the database, close, close_collection, delete, database close,
//!           poison by dropping or failing the holder), then the backend is opened: every call that
//!           waited at the gate is refused and nothing of it reaches the backend, now or through a
//!           later checkpoint; control scenarios show the same queued calls are admitted otherwise.
//!  db_queue  (measured) delete_collection waiting at the per-name lock when the database turns
//!           read-only.

use anda_db::collection::Collection;
use anda_db::error::CollectionState;
use anda_db::schema::Fv;
use futures::StreamExt;
use object_store::ObjectStore;
use std::sync::Arc;
use v_db::audit::{AuditCtx, audit};
use v_db::driver::{Driver, GenCfg, Op, Step, coll_prefix, gen_op};
use v_db::{COLL, Cfg, FDoc, IndexSet, Model, Patch, apply_patch, gen_doc, open_coll};
use vcore::manual::{DfsChooser, ManualExec, RandChooser, Stuck};
use vcore::recstore::{Fault, RecStore};
use vcore::run::block_on;
use vcore::{Rng, Run, Stats, Value, json};

async fn populate(rng: &mut Rng, st: &mut Stats, n_ops: usize, flush_at_end: bool) -> Option<(RecStore, Driver)> {
    let mut cfg = Cfg::random(rng);
    if !flush_at_end {
        cfg.bucket = 64; // many small buckets: compaction and flush have real work
    }
    let store = RecStore::new();
    store.set_record_reads(false);
    let mut d = Driver::start(Arc::new(store.clone()), cfg, IndexSet::ALL).await.ok()?;
    let _ = d.step(&Op::SaveExt("k0".into(), 1), st).await;
    let g = GenCfg { contention: 30, allow_reopen: false, allow_index_change: false, allow_maintenance: false, rejects: false };
    for i in 0..n_ops {
        let op = if i < 3 { Op::Add(gen_doc(rng, 1000 + i as u64)) } else { gen_op(rng, &d.model, d.set, &g) };
        if let Step::Wrong(sig, det) = d.step(&op, st).await {
            st.violation(format!("C06/populate/{sig}"), json!({"detail": det}));
            return None;
        }
    }
    while d.model.docs.len() < 2 {
        // the monitors need a live document to aim at
        let doc = fresh_doc(rng, "pop");
        let _ = d.step(&Op::Add(doc), st).await;
    }
    if flush_at_end {
        let _ = d.step(&Op::Flush, st).await;
    }
    Some((store, d))
}

fn effective_under_prefix(store: &RecStore, mark: usize) -> Vec<String> {
    store
        .mutations_since(mark, Some(&coll_prefix()))
        .iter()
        .filter(|m| m.effective())
        .map(|m| m.describe())
        .collect()
}

async fn list_prefix(store: &RecStore) -> Vec<String> {
    let p = object_store::path::Path::from(coll_prefix());
    store.inner().list(Some(&p)).filter_map(|r| async move { r.ok().map(|m| m.location.to_string()) }).collect().await
}

fn fresh_doc(rng: &mut Rng, tag: &str) -> FDoc {
    let mut d = gen_doc(rng, 1_000_000);
    d.uname = format!("fresh-{tag}-{}", rng.below(1 << 40));
    d.codes = vec![];
    d.grp = format!("gf-{tag}");
    d.slot = rng.below(1 << 40);
    d
}

/// Calls every mutating API (and the read APIs) on `c`; returns (api, outcome) pairs.
async fn hammer(c: &Collection, rng: &mut Rng, some_id: u64, try_reenable: bool) -> Vec<(&'static str, Result<(), String>)> {
    let mut out: Vec<(&'static str, Result<(), String>)> = vec![];
    let e = |r: Result<(), anda_db::error::DBError>| r.map_err(|e| format!("{e:?}"));
    out.push(("add", e(c.add_from(&fresh_doc(rng, "h")).await.map(|_| ()))));
    let mut p = Patch::new();
    p.insert("age".into(), Fv::U64(41));
    out.push(("update", e(c.update(some_id, p).await.map(|_| ()))));
    out.push(("remove", e(c.remove(some_id).await.and_then(|r| r.map(|_| ()).ok_or_else(|| anda_db::error::DBError::Generic { name: "h".into(), source: "remove returned None".into() })))));
    out.push(("flush", e(c.flush(anda_db::unix_ms()).await.map(|_| ()))));
    out.push(("save_extension", e(c.save_extension("kx".into(), Fv::U64(5)).await)));
    out.push(("remove_extension", e(c.remove_extension("k0").await.map(|_| ()))));
    // the four synchronous setters (plain, typed, functional, typed functional), on new keys and
    // on an existing one; they return nothing, so what they did is judged by what a later
    // checkpoint persists (silence_case) and by the flush right here being refused
    c.set_extension("ky".into(), Fv::U64(6));
    c.set_extension_from("kz".into(), 7u64);
    let _ = c.set_extension_with("kw".into(), |_| Some(Fv::U64(8)));
    let _ = c.set_extension_from_with::<_, u64>("kv".into(), |_| Some(9));
    let _ = c.set_extension_with("k0".into(), |old| match old {
        Some(Fv::U64(x)) => Some(Fv::U64(x + 1000)),
        _ => Some(Fv::U64(1000)),
    });
    let _ = c.set_extension_from_with::<_, u64>("k1".into(), |old| Some(old.unwrap_or(0) + 1000));
    out.push(("set_extension*+flush", e(c.flush(anda_db::unix_ms()).await.map(|_| ()))));
    out.push(("compact_btree_index", e(c.compact_btree_index(&["age"]).await)));
    out.push(("compact_bm25_index", e(c.compact_bm25_index(&["body"]).await)));
    out.push(("reconcile_storage", e(c.reconcile_storage().await.map(|_| ()))));
    if try_reenable {
        c.set_read_only(false);
        out.push(("set_read_only(false)+add", e(c.add_from(&fresh_doc(rng, "r")).await.map(|_| ()))));
    }
    // reads may never write either (their results are irrelevant here)
    let _ = c.get_as::<FDoc>(some_id).await;
    let _ = c.query_all_ids(anda_db::query::Filter::Field(("age".into(), anda_db::query::RangeQuery::Ge(Fv::U64(0))))).await;
    let _ = c.search_ids(anda_db::query::Query { search: Some(anda_db::query::Search { text: Some("apple".into()), ..Default::default() }), filter: None, limit: Some(5) }).await;
    out
}

#[derive(Debug, Clone, Copy, PartialEq, Eq)]
enum Transition {
    Close,
    CloseCollection,
    Delete,
    PoisonByCancel,
    PoisonByFailedFlush,
    CollReadOnly,
    DbReadOnly,
}

const TRANSITIONS: [Transition; 7] = [
    Transition::Close,
    Transition::CloseCollection,
    Transition::Delete,
    Transition::PoisonByCancel,
    Transition::PoisonByFailedFlush,
    Transition::CollReadOnly,
    Transition::DbReadOnly,
];

fn silence_case(case: u64, rng: &mut Rng, st: &mut Stats) {
    let tr = TRANSITIONS[(case % 7) as usize];
    block_on(async {
        let (n_pop, fl) = (6 + rng.usize(10), rng.bool());
        let Some((store, d)) = populate(rng, st, n_pop, fl).await else { return };
        let c = d.coll.clone();
        let some_id = d.model.docs.keys().next().copied().unwrap_or(1);
        let ctx = |extra: Value| json!({"transition": format!("{tr:?}"), "case": case, "history": d.history, "extra": extra});
        // perform the transition
        match tr {
            Transition::Close => {
                if let Err(e) = c.close().await {
                    st.violation("C06/silence/close_failed", ctx(json!(format!("{e:?}"))));
                    return;
                }
            }
            Transition::CloseCollection => {
                if let Err(e) = d.db.close_collection(COLL).await {
                    st.violation("C06/silence/close_collection_failed", ctx(json!(format!("{e:?}"))));
                    return;
                }
            }
            Transition::Delete => {
                if let Err(e) = d.db.delete_collection(COLL).await {
                    st.violation("C06/silence/delete_collection_failed", ctx(json!(format!("{e:?}"))));
                    return;
                }
                let left = list_prefix(&store).await;
                if !left.is_empty() {
                    st.violation("C06/silence/objects_left_after_delete", ctx(json!(left)));
                    return;
                }
            }
            Transition::PoisonByCancel => {
                store.set_gate(true);
                let mut ex: ManualExec<'_, ()> = ManualExec::new();
                let doc = fresh_doc(rng, "p");
                let c2 = c.clone();
                let t = ex.spawn(async move {
                    let _ = c2.add_from(&doc).await;
                });
                let polls = 1 + rng.usize(2);
                for _ in 0..polls {
                    if ex.poll(t) {
                        break;
                    }
                }
                ex.cancel(t);
                drop(ex);
                store.set_gate(false);
                if c.state() != CollectionState::Poisoned {
                    // the add completed within the polls: nothing to test in this case
                    st.count("silence_poison_by_cancel_not_reached");
                    return;
                }
            }
            Transition::PoisonByFailedFlush => {
                // make sure the flush has something to write, then let one of its writes fail
                let _ = c.add_from(&fresh_doc(rng, "ff")).await;
                store.set_fault(Fault::FailAfter(store.attempts() + rng.below(3)));
                let r = c.flush(anda_db::unix_ms()).await;
                store.reset_faults();
                if r.is_ok() || c.state() != CollectionState::Poisoned {
                    st.count("silence_poison_by_failed_flush_not_reached");
                    return;
                }
            }
            Transition::CollReadOnly => c.set_read_only(true),
            Transition::DbReadOnly => d.db.set_read_only(true),
        }
        let terminal = !matches!(tr, Transition::CollReadOnly | Transition::DbReadOnly);
        let state_after = c.state();
        let mark = store.mark();
        // DbReadOnly: the collection-level switch must not re-enable a handle whose database is
        // read-only; CollReadOnly: re-enabling is legitimate, so it is not attempted here
        let try_reenable = terminal || tr == Transition::DbReadOnly;
        let results = hammer(&c, rng, some_id, try_reenable).await;
        st.eval();
        st.count(&format!("silence:{tr:?}"));
        for (api, r) in &results {
            st.count("silence_calls_on_retired_or_readonly_handle");
            if r.is_ok() {
                st.violation(format!("C06/silence/{tr:?}/call_accepted/{api}"), ctx(json!({"state_after_transition": format!("{state_after:?}")})));
                return;
            }
        }
        if terminal && c.state() == CollectionState::Active {
            st.violation(format!("C06/silence/{tr:?}/handle_active_again"), ctx(json!(null)));
            return;
        }
        if terminal && c.state() != state_after && !(state_after == CollectionState::Closing) {
            st.count("state_changed_between_terminal_states");
        }
        let wrote = effective_under_prefix(&store, mark);
        if !wrote.is_empty() {
            st.violation(format!("C06/silence/{tr:?}/wrote_after_transition"), ctx(json!({"mutations": wrote, "calls": results.iter().map(|(a, r)| format!("{a}: {}", if r.is_ok() { "ok" } else { "rejected" })).collect::<Vec<_>>()})));
            return;
        }
        if tr == Transition::Delete {
            let left = list_prefix(&store).await;
            if !left.is_empty() {
                st.violation("C06/silence/retained_handle_recreated_objects_after_delete", ctx(json!(left)));
                return;
            }
        }
        // close() on a retired handle: idempotent or rejected, never writing
        let mark = store.mark();
        let _ = c.close().await;
        let wrote = effective_under_prefix(&store, mark);
        if terminal && !wrote.is_empty() {
            st.violation(format!("C06/silence/{tr:?}/close_wrote_after_transition"), ctx(json!(wrote)));
            return;
        }
        if !terminal {
            // a read-only handle becomes writable again through the legitimate switch; the
            // checkpoint that follows must not persist anything a call made WHILE the handle was
            // read-only (the synchronous extension setters have no other observable effect)
            st.count("readonly_handles_checked");
            let ext_before: std::collections::BTreeMap<String, u64> = d.model.ext.clone();
            match tr {
                Transition::CollReadOnly => c.set_read_only(false),
                _ => {
                    d.db.set_read_only(false);
                    c.set_read_only(false);
                }
            }
            if let Ok(nc) = open_coll(&d.db, IndexSet::ALL).await {
                let _ = nc.flush(anda_db::unix_ms()).await;
                let snap = store.snapshot().await;
                let reopened = async {
                    let db = v_db::connect(snap as Arc<dyn ObjectStore>, &d.cfg).await.map_err(|e| format!("{e:?}"))?;
                    let col = open_coll(&db, IndexSet::ALL).await.map_err(|e| format!("{e:?}"))?;
                    Ok::<_, String>(["k0", "k1", "k2", "kx", "ky", "kz", "kw", "kv"].iter().filter_map(|k| col.get_extension_as::<u64>(k).map(|v| (k.to_string(), v))).collect::<std::collections::BTreeMap<String, u64>>())
                }
                .await;
                st.count("oracle_nothing_set_while_read_only_is_persisted_later");
                match reopened {
                    Ok(ext) if ext != ext_before => {
                        st.violation(format!("C06/silence/{tr:?}/extension_set_while_read_only_persisted_by_a_later_checkpoint"),
                            ctx(json!({"extensions_before_read_only": format!("{ext_before:?}"), "extensions_after_reopen": format!("{ext:?}")})));
                        return;
                    }
                    Ok(_) => {}
                    Err(e) => st.count(&format!("readonly_followup_reopen_failed(measured):{}", vcore::clip(&e, 40))),
                }
            }
        }
        st.distinct(vcore::fnv_str(&format!("{tr:?}{}", d.history.join(";"))));
        st.sample(|| json!({"monitor": "silence", "transition": format!("{tr:?}"), "calls": results.iter().map(|(a, _)| *a).collect::<Vec<_>>()}));
    });
}

// ---------------------------------------------------------------------------------------------
// cancel = crash

#[derive(Debug, Clone, Copy, PartialEq, Eq)]
enum Api {
    Add,
    Update,
    Remove,
    Flush,
    Close,
    SaveExt,
    RemoveExt,
    CompactBtree,
    CompactBm25,
    Reconcile,
    DbCloseCollection,
    DbDeleteCollection,
    DbOpen,
}
const APIS: [Api; 13] = [
    Api::Add, Api::Update, Api::Remove, Api::Flush, Api::Close, Api::SaveExt, Api::RemoveExt, Api::CompactBtree, Api::CompactBm25,
    Api::Reconcile, Api::DbCloseCollection, Api::DbDeleteCollection, Api::DbOpen,
];

fn cancel_case(case: u64, rng: &mut Rng, st: &mut Stats) {
    let api = APIS[(case % APIS.len() as u64) as usize];
    let wl = rng.fork();
    block_on(async {
        let mut k = 1usize;
        loop {
            // identical population for every k
            let mut r = wl.clone();
            let Some((store, d)) = populate(&mut r, st, 14 + (case % 5) as usize, false).await else { return };
            let mut d = d;
            if matches!(api, Api::CompactBtree | Api::CompactBm25) {
                // several buckets per index so that the compaction really rewrites something
                for i in 0..8u64 {
                    let mut x = fresh_doc(&mut r, "cmp");
                    x.tags = (0..4).map(|j| format!("long-distinct-tag-value-{i}-{j}")).collect();
                    x.body = v_db::VOCAB.iter().cycle().skip(i as usize).take(9).copied().collect::<Vec<_>>().join(" ");
                    if api == Api::CompactBm25 {
                        x.body = (0..12).map(|j| format!("unique{i}word{j}")).collect::<Vec<_>>().join(" ");
                    }
                    let _ = d.step(&Op::Add(x), st).await;
                }
                if api == Api::CompactBm25 {
                    // fragment the token buckets: most of the new terms disappear again
                    let ids: Vec<u64> = d.model.docs.iter().filter(|(_, x)| x.body.starts_with("unique")).map(|(i, _)| *i).collect();
                    for id in ids.iter().skip(1) {
                        let _ = d.step(&Op::Remove(*id), st).await;
                    }
                }
            }
            if api == Api::DbOpen {
                // reopening needs a closed collection first
                let _ = d.db.close_collection(COLL).await;
            }
            let c = d.coll.clone();
            let db = d.db.clone();
            let before = d.model.clone();
            let target = before.docs.keys().next().copied().unwrap_or(1);
            let new_doc = fresh_doc(&mut r, "c");
            let mut patch = Patch::new();
            patch.insert("age".into(), Fv::U64(99));
            patch.insert("uname".into(), Fv::Text(format!("cancelled-{case}")));
            patch.insert("body".into(), Fv::Text("harbor jungle".into()));
            let mut after = before.clone();
            match api {
                Api::Update => {
                    if let Some(x) = before.docs.get(&target) {
                        after.docs.insert(target, apply_patch(x, &patch).unwrap());
                    }
                }
                Api::Remove => {
                    after.docs.remove(&target);
                }
                _ => {}
            }
            // odd cases also stop AFTER each landed mutation: the drop then falls between a backend
            // effect and the caller observing it
            store.set_gate(true);
            store.set_gate_after(case % 2 == 1);
            // every third case can also be dropped between a read's response and its consumer
            store.set_gate_after_reads(case % 3 == 2);
            let mark = store.mark();
            let mut ex: ManualExec<'_, Result<(), String>> = ManualExec::new();
            let (c2, db2, nd, p2) = (c.clone(), db.clone(), new_doc.clone(), patch.clone());
            let t = ex.spawn(async move {
                let e = |r: Result<(), anda_db::error::DBError>| r.map_err(|e| format!("{e:?}"));
                match api {
                    Api::Add => e(c2.add_from(&nd).await.map(|_| ())),
                    Api::Update => e(c2.update(target, p2).await.map(|_| ())),
                    Api::Remove => e(c2.remove(target).await.map(|_| ())),
                    Api::Flush => e(c2.flush(anda_db::unix_ms()).await.map(|_| ())),
                    Api::Close => e(c2.close().await),
                    Api::SaveExt => e(c2.save_extension("kc".into(), Fv::U64(9)).await),
                    Api::RemoveExt => e(c2.remove_extension("k0").await.map(|_| ())),
                    Api::CompactBtree => e(c2.compact_btree_index(&["tags"]).await),
                    Api::CompactBm25 => e(c2.compact_bm25_index(&["body"]).await),
                    Api::Reconcile => e(c2.reconcile_storage().await.map(|_| ())),
                    Api::DbCloseCollection => e(db2.close_collection(COLL).await),
                    Api::DbDeleteCollection => e(db2.delete_collection(COLL).await),
                    Api::DbOpen => e(open_coll(&db2, IndexSet::ALL).await.map(|_| ())),
                }
            });
            let mut completed = false;
            for _ in 0..k {
                if ex.poll(t) {
                    completed = true;
                    break;
                }
            }
            let result = ex.take_result(t);
            ex.cancel(t);
            drop(ex);
            store.set_gate(false);
            store.set_gate_after(false);
            store.set_gate_after_reads(false);
            if completed {
                st.max(&format!("max_polls_to_complete:{api:?}"), k as u64);
                if let Some(Err(e)) = result {
                    st.violation(format!("C06/cancel/{api:?}/uncancelled_call_failed"), json!({"error": e, "history": d.history}));
                }
                break;
            }
            st.eval();
            st.count(&format!("cancelled:{api:?}"));
            st.count("cancellation_points");
            let landed = store.mutations_since(mark, None).iter().filter(|m| m.effective()).count();
            let ctx = |extra: Value| json!({"api": format!("{api:?}"), "dropped_after_polls": k, "backend_mutations_before_drop": landed, "history": d.history, "extra": extra});
            let state = c.state();
            // ---- the old handle
            match api {
                Api::DbCloseCollection | Api::DbDeleteCollection | Api::DbOpen => {}
                _ => {
                    if state == CollectionState::Active {
                        st.count("cancel_left_handle_active");
                        // no partial effect: the live handle still equals the model and no
                        // document / index object was touched
                        if !audit(&c, &before, IndexSet::ALL, st, &AuditCtx { sig: &format!("C06/cancel/{api:?}/active_handle_changed"), ctx: &|| ctx(json!(null)) }).await {
                            return;
                        }
                    } else {
                        st.count(&format!("cancel_left_handle:{state:?}"));
                        if state == CollectionState::Poisoned || state == CollectionState::Closing {
                            let mark2 = store.mark();
                            let res = hammer(&c, &mut r, target, true).await;
                            if state == CollectionState::Poisoned {
                                for (a, rr) in &res {
                                    if rr.is_ok() {
                                        st.violation(format!("C06/cancel/{api:?}/poisoned_handle_accepted/{a}"), ctx(json!(null)));
                                        return;
                                    }
                                }
                                let wrote = effective_under_prefix(&store, mark2);
                                if !wrote.is_empty() {
                                    st.violation(format!("C06/cancel/{api:?}/poisoned_handle_wrote"), ctx(json!(wrote)));
                                    return;
                                }
                                if c.state() == CollectionState::Active {
                                    st.violation(format!("C06/cancel/{api:?}/poisoned_handle_active_again"), ctx(json!(null)));
                                    return;
                                }
                            }
                        }
                    }
                }
            }
            // ---- a dropped delete_collection that already had an effect (tombstone / database
            // metadata / object deletes landed) must have retired every retained handle: "either
            // no partial effect or the handle is poisoned". Judged BEFORE the retry.
            if api == Api::DbDeleteCollection && landed > 0 {
                st.count("cancelled_delete_with_partial_effect");
                if c.state() == CollectionState::Active {
                    st.violation("C06/cancel/DbDeleteCollection/partial_effect_but_retained_handle_active", ctx(json!({"state": format!("{:?}", c.state())})));
                    return;
                }
                let mark2 = store.mark();
                let res = hammer(&c, &mut r, target, true).await;
                for (a, rr) in &res {
                    if rr.is_ok() {
                        st.violation(format!("C06/cancel/DbDeleteCollection/retained_handle_accepted_after_interrupted_delete/{a}"), ctx(json!(null)));
                        return;
                    }
                }
                let wrote = effective_under_prefix(&store, mark2);
                if !wrote.is_empty() {
                    st.violation("C06/cancel/DbDeleteCollection/retained_handle_wrote_after_interrupted_delete", ctx(json!(wrote)));
                    return;
                }
            }
            // ---- reopen through the database: a retry / reopen must complete
            if api == Api::DbDeleteCollection {
                // a cancelled delete is finished by a retry; afterwards nothing remains
                match db.delete_collection(COLL).await {
                    Ok(()) => {
                        let left = list_prefix(&store).await;
                        if !left.is_empty() {
                            st.violation("C06/cancel/DbDeleteCollection/objects_left_after_retry", ctx(json!(left)));
                            return;
                        }
                        let mark3 = store.mark();
                        let _ = hammer(&c, &mut r, target, true).await;
                        let wrote = effective_under_prefix(&store, mark3);
                        if !wrote.is_empty() || !list_prefix(&store).await.is_empty() {
                            st.violation("C06/cancel/DbDeleteCollection/retained_handle_wrote_after_delete", ctx(json!(wrote)));
                            return;
                        }
                        st.count("cancelled_delete_finished_by_retry");
                    }
                    Err(e) => {
                        st.violation("C06/cancel/DbDeleteCollection/retry_failed", ctx(json!(format!("{e:?}"))));
                        return;
                    }
                }
            } else {
                match open_coll(&db, IndexSet::ALL).await {
                    Ok(nc) => {
                        if !Arc::ptr_eq(&nc, &c) && c.state() == CollectionState::Active && nc.state() == CollectionState::Active {
                            st.violation(format!("C06/cancel/{api:?}/two_active_handles_for_one_collection"), ctx(json!(null)));
                            return;
                        }
                        // old state or new state, in full
                        let applied = match api {
                            Api::Add => nc.len() == before.docs.len() + 1,
                            Api::Update => nc.get_as::<FDoc>(target).await.ok().as_ref() == after.docs.get(&target) && after != before,
                            Api::Remove => !nc.contains(target) && before.docs.contains_key(&target),
                            _ => false,
                        };
                        let mut m: Model = if applied { after.clone() } else { before.clone() };
                        if api == Api::Add && applied {
                            let known: std::collections::BTreeSet<u64> = before.docs.keys().copied().collect();
                            if let Some(id) = nc.ids().into_iter().find(|i| !known.contains(i)) {
                                let mut x = new_doc.clone();
                                x._id = id;
                                m.docs.insert(id, x);
                            }
                        }
                        st.count(if applied { "cancelled_op_found_applied" } else { "cancelled_op_found_not_applied" });
                        if !audit(&nc, &m, IndexSet::ALL, st, &AuditCtx { sig: &format!("C06/cancel/{api:?}/after_reopen"), ctx: &|| ctx(json!({"resolved_as_applied": applied})) }).await {
                            return;
                        }
                        // and it accepts writes again
                        if let Err(e) = nc.add_from(&fresh_doc(&mut r, "after")).await {
                            st.violation(format!("C06/cancel/{api:?}/reopened_collection_rejects_writes"), ctx(json!(format!("{e:?}"))));
                            return;
                        }
                        st.count("reopens_after_cancellation_audited");
                    }
                    Err(e) => {
                        st.violation(format!("C06/cancel/{api:?}/reopen_failed"), ctx(json!(format!("{e:?}"))));
                        return;
                    }
                }
            }
            st.distinct(vcore::fnv_str(&format!("{api:?}{k}")) ^ case);
            k += 1;
            if k > 400 {
                st.inconclusive(format!("C06 cancel: {api:?} did not complete within 400 polls"));
                break;
            }
        }
        st.sample(|| json!({"monitor": "cancel", "api": format!("{api:?}"), "polls_until_completion": k}));
    });
}

// ---------------------------------------------------------------------------------------------
// operations in flight / queued when a transition starts

fn queued_case(case: u64, rng: &mut Rng, st: &mut Stats, budget: u64) {
    let tr = [Transition::Close, Transition::CloseCollection, Transition::Delete][(case % 3) as usize];
    let n_ops = 1 + (case / 3 % 2) as usize;
    let wl = rng.fork();
    block_on(async {
        let mut dfs = DfsChooser::new();
        let mut rc = RandChooser(rng.fork());
        let mut runs = 0u64;
        loop {
            let use_dfs = runs < budget;
            if use_dfs {
                dfs.begin_run();
            }
            let mut r = wl.clone();
            let Some((store, d)) = populate(&mut r, st, 6, true).await else { return };
            let c = d.coll.clone();
            let db = d.db.clone();
            let docs: Vec<FDoc> = (0..n_ops).map(|i| fresh_doc(&mut r, &format!("q{i}"))).collect();
            store.set_gate(true);
            let mut ex: ManualExec<'_, Result<Option<u64>, String>> = ManualExec::new();
            for doc in &docs {
                let (c2, doc) = (c.clone(), doc.clone());
                ex.spawn(async move { c2.add_from(&doc).await.map(Some).map_err(|e| format!("{e:?}")) });
            }
            let (c2, db2) = (c.clone(), db.clone());
            let tt = ex.spawn(async move {
                let r = match tr {
                    Transition::Close => c2.close().await,
                    Transition::CloseCollection => db2.close_collection(COLL).await,
                    _ => db2.delete_collection(COLL).await,
                };
                r.map(|_| None).map_err(|e| format!("{e:?}"))
            });
            let mut mark_after_transition: Option<usize> = None;
            let store2 = store.clone();
            let res = if use_dfs {
                ex.run(&mut dfs, 4000, |_, i, done| {
                    if done && i == tt {
                        mark_after_transition = Some(store2.mark());
                    }
                })
            } else {
                ex.run(&mut rc, 4000, |_, i, done| {
                    if done && i == tt {
                        mark_after_transition = Some(store2.mark());
                    }
                })
            };
            store.set_gate(false);
            let trace = ex.trace.clone();
            if let Err(e) = res {
                match e {
                    Stuck::Deadlock(t) => st.violation(format!("C06/queued/{tr:?}/deadlock"), json!({"blocked": t, "schedule": trace})),
                    Stuck::StepCap => st.inconclusive("C06 queued: step cap"),
                }
                return;
            }
            let results: Vec<Result<Option<u64>, String>> = (0..=n_ops).map(|i| ex.take_result(i).unwrap()).collect();
            drop(ex);
            runs += 1;
            st.eval();
            st.count("queued_schedules_run");
            st.count(&format!("queued:{tr:?}"));
            st.set("distinct_queued_schedules", vcore::hash_debug(&trace) ^ case.wrapping_mul(0x9e3779b97f4a7c15));
            let ctx = |extra: Value| json!({"transition": format!("{tr:?}"), "schedule": trace, "results": results.iter().map(|r| format!("{r:?}")).collect::<Vec<_>>(), "extra": extra});
            if let Err(e) = &results[n_ops] {
                st.violation(format!("C06/queued/{tr:?}/transition_failed"), ctx(json!(e)));
                return;
            }
            // nothing under the prefix changes once the transition has returned
            if let Some(m) = mark_after_transition {
                let wrote = effective_under_prefix(&store, m);
                if !wrote.is_empty() {
                    st.violation(format!("C06/queued/{tr:?}/wrote_after_transition_returned"), ctx(json!(wrote)));
                    return;
                }
            }
            let accepted = results[..n_ops].iter().filter(|r| r.is_ok()).count();
            st.count(&format!("queued_ops_accepted:{accepted}"));
            if tr == Transition::Delete {
                let left = list_prefix(&store).await;
                if !left.is_empty() {
                    st.violation("C06/queued/Delete/objects_left", ctx(json!(left)));
                    return;
                }
            } else {
                // operations admitted before the transition are reflected, rejected ones left no trace
                let mut m = d.model.clone();
                for (i, r) in results[..n_ops].iter().enumerate() {
                    if let Ok(Some(id)) = r {
                        let mut x = docs[i].clone();
                        x._id = *id;
                        m.docs.insert(*id, x);
                    }
                }
                match open_coll(&db, IndexSet::ALL).await {
                    Ok(nc) => {
                        if !audit(&nc, &m, IndexSet::ALL, st, &AuditCtx { sig: &format!("C06/queued/{tr:?}/after_reopen"), ctx: &|| ctx(json!(null)) }).await {
                            return;
                        }
                    }
                    Err(e) => {
                        st.violation(format!("C06/queued/{tr:?}/reopen_failed"), ctx(json!(format!("{e:?}"))));
                        return;
                    }
                }
            }
            if use_dfs && !dfs.next_run() {
                st.count("queued_schedule_spaces_exhausted");
                break;
            }
            if runs >= budget + budget / 2 {
                break;
            }
        }
        st.distinct(vcore::fnv_str(&format!("queued{tr:?}{n_ops}")) ^ case);
    });
}

// ---------------------------------------------------------------------------------------------
// an operation queued behind a mutation whose future is then dropped (poisoning the handle)

#[derive(Clone, Copy, Debug, PartialEq, Eq)]
enum QOp {
    Flush,
    CompactBtree,
    CompactBm25,
    Reconcile,
    Close,
    Add,
    SaveExt,
    /// update / remove of ANOTHER document: admitted next to A, several backend calls of its own
    UpdateOther,
    RemoveOther,
}
const QOPS: [QOp; 9] = [QOp::Flush, QOp::CompactBtree, QOp::CompactBm25, QOp::Reconcile, QOp::Close, QOp::Add, QOp::SaveExt, QOp::UpdateOther, QOp::RemoveOther];

/// A = update / remove / add in flight, dropped after k polls; B = another call issued while A is
/// in flight. When the drop poisons the handle and B had not reached the backend yet (it was
/// queued behind A's gate or lock), B must be rejected and must write nothing.
fn queued_poison_case(case: u64, rng: &mut Rng, st: &mut Stats) {
    let qop = QOPS[(case % QOPS.len() as u64) as usize];
    let first = [Api::Update, Api::Remove, Api::Add][(case / QOPS.len() as u64 % 3) as usize];
    let read_only_mode = case / (3 * QOPS.len() as u64) % 2 == 1;
    let wl = rng.fork();
    block_on(async {
        let mut k = 1usize;
        loop {
            let mut r = wl.clone();
            let Some((store, d)) = populate(&mut r, st, 10, true).await else { return };
            let c = d.coll.clone();
            let target = d.model.docs.keys().next().copied().unwrap_or(1);
            let other_id = d.model.docs.keys().nth(1).copied().unwrap_or(target);
            let new_doc = fresh_doc(&mut r, "qa");
            let other_doc = fresh_doc(&mut r, "qb");
            let mut patch = Patch::new();
            patch.insert("age".into(), Fv::U64(77));
            patch.insert("uname".into(), Fv::Text(format!("qp-{case}")));
            patch.insert("body".into(), Fv::Text("harbor jungle".into()));
            store.set_gate(true);
            store.set_gate_after(case % 2 == 1);
            let mark = store.mark();
            let mut ex: ManualExec<'_, Result<(), String>> = ManualExec::new();
            let (c2, nd, p2) = (c.clone(), new_doc.clone(), patch.clone());
            let ta = ex.spawn(async move {
                let e = |r: Result<(), anda_db::error::DBError>| r.map_err(|e| format!("{e:?}"));
                match first {
                    Api::Update => e(c2.update(target, p2).await.map(|_| ())),
                    Api::Remove => e(c2.remove(target).await.map(|_| ())),
                    _ => e(c2.add_from(&nd).await.map(|_| ())),
                }
            });
            let mut a_done = false;
            for _ in 0..k {
                if ex.poll(ta) {
                    a_done = true;
                    break;
                }
            }
            if a_done {
                store.set_gate(false);
                store.set_gate_after(false);
                break;
            }
            // B is issued now and polled a few times: it either waits for A (no backend event) or
            // runs concurrently with it (then it is not "queued" and is not judged)
            let events_before_b = store.log_len();
            let (c3, od) = (c.clone(), other_doc.clone());
            let tb = ex.spawn(async move {
                let e = |r: Result<(), anda_db::error::DBError>| r.map_err(|e| format!("{e:?}"));
                match qop {
                    QOp::Flush => e(c3.flush(anda_db::unix_ms()).await.map(|_| ())),
                    QOp::CompactBtree => e(c3.compact_btree_index(&["tags"]).await),
                    QOp::CompactBm25 => e(c3.compact_bm25_index(&["body"]).await),
                    QOp::Reconcile => e(c3.reconcile_storage().await.map(|_| ())),
                    QOp::Close => e(c3.close().await),
                    QOp::Add => e(c3.add_from(&od).await.map(|_| ())),
                    QOp::SaveExt => e(c3.save_extension("kq".into(), Fv::U64(5)).await),
                    QOp::UpdateOther => {
                        let mut p = Patch::new();
                        p.insert("age".into(), Fv::U64(55));
                        p.insert("body".into(), Fv::Text("kernel lemon".into()));
                        e(c3.update(other_id, p).await.map(|_| ()))
                    }
                    QOp::RemoveOther => e(c3.remove(other_id).await.map(|_| ())),
                }
            });
            let mut b_done = false;
            for _ in 0..3 {
                if ex.poll(tb) {
                    b_done = true;
                    break;
                }
                if store.log_len() != events_before_b {
                    // B runs concurrently with A and is now parked in the middle of its own
                    // backend calls: keep it there (in flight) for the reopen race below
                    break;
                }
            }
            let b_reached_backend = store.log_len() != events_before_b;
            let landed_a = store.mutations_since(mark, None).iter().filter(|m| m.effective()).count();
            if read_only_mode {
                // the transition is "the handle becomes read-only" (collection flag or database flag)
                // while A is in flight and B waits: A, admitted before, may finish; B, which gets its
                // turn afterwards, must be refused and must write nothing
                if case % 2 == 0 { c.set_read_only(true) } else { d.db.set_read_only(true) }
                store.set_gate(false);
                store.set_gate_after(false);
                let mut a_fin = false;
                for _ in 0..4000 {
                    if ex.poll(ta) {
                        a_fin = true;
                        break;
                    }
                }
                let mark_b = store.mark();
                if !b_done {
                    for _ in 0..4000 {
                        if ex.poll(tb) {
                            b_done = true;
                            break;
                        }
                    }
                }
                let rb = ex.take_result(tb);
                drop(ex);
                st.eval();
                st.count("queued_readonly_points");
                let ctx = |extra: Value| json!({"in_flight": format!("{first:?}"), "read_only_set_after_polls": k, "queued": format!("{qop:?}"),
                    "queued_call_had_reached_backend": b_reached_backend, "history": d.history, "extra": extra});
                if !a_fin || !b_done {
                    st.violation(format!("C06/queued_readonly/{qop:?}/call_never_returns"), ctx(json!({"a": a_fin, "b": b_done})));
                    return;
                }
                if !b_reached_backend && qop != QOp::Close {
                    st.count("queued_behind_readonly_judged");
                    if let Some(Ok(())) = rb {
                        st.violation(format!("C06/queued_readonly/{qop:?}/queued_call_accepted_on_read_only_handle"), ctx(json!(null)));
                        return;
                    }
                    let wrote = effective_under_prefix(&store, mark_b);
                    if !wrote.is_empty() {
                        st.violation(format!("C06/queued_readonly/{qop:?}/queued_call_wrote_on_read_only_handle"), ctx(json!(wrote)));
                        return;
                    }
                }
                k += 1;
                if k > 200 {
                    break;
                }
                continue;
            }
            // drop A at its current suspension point
            ex.cancel(ta);
            let state_after_drop = c.state();
            let mark_b = store.mark();
            // B is still IN FLIGHT on the now poisoned handle (it had reached the backend and is
            // parked there): the application reopens the collection through the database while B
            // has not finished. The reopen must not hand out a fresh handle under which the old
            // handle's in-flight call still writes: it either waits for B (drain) or B writes
            // nothing afterwards.
            let mut reopen_raced: Option<(bool, Vec<String>)> = None;
            if state_after_drop == CollectionState::Poisoned && b_reached_backend && !b_done {
                let db2 = d.db.clone();
                let t3 = ex.spawn(async move { open_coll(&db2, IndexSet::ALL).await.map(|_| ()).map_err(|e| format!("{e:?}")) });
                let mut t3_done = false;
                for _ in 0..600 {
                    if ex.poll(t3) {
                        t3_done = true;
                        break;
                    }
                }
                let mark_after_reopen = store.mark();
                store.set_gate(false);
                store.set_gate_after(false);
                for _ in 0..4000 {
                    if ex.poll(tb) {
                        b_done = true;
                        break;
                    }
                }
                let wrote_after = if t3_done { effective_under_prefix(&store, mark_after_reopen) } else { vec![] };
                if !t3_done {
                    for _ in 0..4000 {
                        if ex.poll(t3) {
                            break;
                        }
                    }
                }
                reopen_raced = Some((t3_done, wrote_after));
            }
            store.set_gate(false);
            store.set_gate_after(false);
            if !b_done {
                for _ in 0..4000 {
                    if ex.poll(tb) {
                        b_done = true;
                        break;
                    }
                }
            }
            let rb = ex.take_result(tb);
            drop(ex);
            st.eval();
            st.count("queued_poison_points");
            st.count(&format!("queued_poison:{qop:?}"));
            let ctx = |extra: Value| json!({"in_flight": format!("{first:?}"), "dropped_after_polls": k, "backend_mutations_of_dropped_call": landed_a,
                "queued": format!("{qop:?}"), "queued_call_had_reached_backend": b_reached_backend, "state_after_drop": format!("{state_after_drop:?}"),
                "history": d.history, "extra": extra});
            if !b_done {
                st.violation(format!("C06/queued_poison/{qop:?}/queued_call_never_returns"), ctx(json!(null)));
                return;
            }
            if let Some((reopened_before_b_finished, wrote_after)) = &reopen_raced {
                st.count("reopen_while_a_call_of_the_poisoned_handle_is_in_flight");
                st.count(if *reopened_before_b_finished { "reopen_returned_while_old_call_still_in_flight" } else { "reopen_waited_for_the_in_flight_call" });
                if !wrote_after.is_empty() {
                    st.violation(format!("C06/queued_poison/{qop:?}/in_flight_call_of_poisoned_handle_wrote_after_the_collection_was_reopened"), ctx(json!(wrote_after)));
                    return;
                }
            }
            if state_after_drop == CollectionState::Poisoned && !b_reached_backend {
                st.count("queued_behind_poisoning_drop_judged");
                st.count(&format!("queued_behind_poisoning_drop:{qop:?}"));
                if let Some(Ok(())) = rb {
                    st.violation(format!("C06/queued_poison/{qop:?}/queued_call_accepted_on_poisoned_handle"), ctx(json!(null)));
                    return;
                }
                let wrote = effective_under_prefix(&store, mark_b);
                if !wrote.is_empty() {
                    st.violation(format!("C06/queued_poison/{qop:?}/queued_call_wrote_on_poisoned_handle"), ctx(json!(wrote)));
                    return;
                }
                if c.state() == CollectionState::Active {
                    st.violation(format!("C06/queued_poison/{qop:?}/poisoned_handle_active_again"), ctx(json!(null)));
                    return;
                }
            } else if state_after_drop == CollectionState::Poisoned {
                st.count("queued_poison_b_ran_concurrently(not judged)");
            } else {
                st.count("queued_poison_drop_did_not_poison");
            }
            st.distinct(vcore::fnv_str(&format!("qp{first:?}{qop:?}{k}")) ^ case);
            k += 1;
            if k > 200 {
                break;
            }
        }
    });
}

// ---------------------------------------------------------------------------------------------
// calls QUEUED AT THE OPERATION GATE behind a holder of the exclusive gate when the transition begins

/// What holds the exclusive operation gate (parked at one of its backend calls) while the calls
/// are issued. `None` in a scenario = the transition call itself (close / delete ...) is the
/// parked holder.
#[derive(Clone, Copy, Debug, PartialEq, Eq)]
enum GHolder {
    Flush,
    DbFlush,
    CompactBtree,
    CompactBm25,
    Reconcile,
}
const GHOLDERS: [GHolder; 5] = [GHolder::Flush, GHolder::DbFlush, GHolder::CompactBtree, GHolder::CompactBm25, GHolder::Reconcile];

/// The transition performed while the calls wait at the gate.
#[derive(Clone, Copy, Debug, PartialEq, Eq)]
enum GTr {
    CollReadOnly,
    DbReadOnly,
    /// database flag on, then the collection-level switch is (illegitimately) turned off
    DbReadOnlyThenCollectionSwitchOff,
    Close,
    CloseCollection,
    Delete,
    DbClose,
    /// the parked holder's future is dropped
    PoisonByDrop,
    /// the parked holder's next backend write fails
    PoisonByFault,
    // --- not judged (the handle is writable when the queued calls get their turn): evidence that
    // --- the same queued calls are real writers, and that a lifted flag admits them again
    CollReadOnlyLifted,
    DbReadOnlyLifted,
    Control,
}
const GTRS: [GTr; 12] = [
    GTr::CollReadOnly, GTr::DbReadOnly, GTr::DbReadOnlyThenCollectionSwitchOff, GTr::Close, GTr::CloseCollection, GTr::Delete,
    GTr::DbClose, GTr::PoisonByDrop, GTr::PoisonByFault, GTr::CollReadOnlyLifted, GTr::DbReadOnlyLifted, GTr::Control,
];
impl GTr {
    fn read_only(self) -> bool {
        matches!(self, GTr::CollReadOnly | GTr::DbReadOnly | GTr::DbReadOnlyThenCollectionSwitchOff)
    }
    fn is_call(self) -> bool {
        matches!(self, GTr::Close | GTr::CloseCollection | GTr::Delete | GTr::DbClose)
    }
    fn unjudged(self) -> bool {
        matches!(self, GTr::CollReadOnlyLifted | GTr::DbReadOnlyLifted | GTr::Control)
    }
}

#[derive(Clone, Copy, Debug, PartialEq, Eq)]
enum GCall {
    Add,
    Update,
    Remove,
    SaveExt,
    RemoveExt,
    Flush,
    CompactBtree,
    CompactBm25,
    Reconcile,
}
const GCALLS: [GCall; 9] = [GCall::Add, GCall::Update, GCall::Remove, GCall::SaveExt, GCall::RemoveExt, GCall::Flush, GCall::CompactBtree, GCall::CompactBm25, GCall::Reconcile];
impl GCall {
    /// calls that always have something to write when they are admitted (the control scenario
    /// shows it)
    fn always_writes(self) -> bool {
        matches!(self, GCall::Add | GCall::Update | GCall::Remove | GCall::SaveExt | GCall::RemoveExt)
    }
}

fn gate_scenarios() -> Vec<(Option<GHolder>, GTr)> {
    let mut v = vec![];
    for h in GHOLDERS {
        for t in GTRS {
            v.push((Some(h), t));
        }
    }
    for t in [GTr::Close, GTr::CloseCollection, GTr::Delete, GTr::DbClose] {
        v.push((None, t));
    }
    v
}

/// One scenario = (holder of the exclusive gate, transition). For every k: the holder is polled k
/// times (it is then parked at its k-th backend call, holding the exclusive gate), mutating calls
/// of every kind are issued and polled once (they wait at the gate: parked, not woken, no backend
/// call outstanding), the transition is performed, the backend gate is opened, the holder is
/// allowed to finish on its own, and only then the queued calls are polled. A call that was
/// waiting at the gate when the transition began must be refused and nothing of it may reach the
/// backend (every mutation is attributed to the one task that was polled when it landed).
fn gate_queue_case(case: u64, rng: &mut Rng, st: &mut Stats) {
    let scen = gate_scenarios();
    let (holder, tr) = scen[(case % scen.len() as u64) as usize];
    let variant = case / scen.len() as u64;
    let wl = rng.fork();
    let hname = holder.map(|h| format!("{h:?}")).unwrap_or_else(|| "TransitionItself".into());
    block_on(async {
        let mut k = 1usize;
        loop {
            let mut r = wl.clone();
            let Some((store, d)) = populate(&mut r, st, 8 + (variant % 4) as usize, false).await else { return };
            let mut d = d;
            // pending work for the holder: several index buckets, an unflushed document and an
            // unflushed extension change
            for i in 0..3u64 {
                let mut x = fresh_doc(&mut r, "gq");
                x.tags = (0..4).map(|j| format!("long-distinct-tag-value-{i}-{j}")).collect();
                x.body = (0..8).map(|j| format!("unique{i}word{j}")).collect::<Vec<_>>().join(" ");
                let _ = d.step(&Op::Add(x), st).await;
            }
            if variant % 2 == 1 {
                let _ = d.step(&Op::Flush, st).await;
                let _ = d.step(&Op::Add(fresh_doc(&mut r, "gr")), st).await;
            }
            let _ = d.step(&Op::SaveExt("k1".into(), 7), st).await;
            let c = d.coll.clone();
            let db = d.db.clone();
            let before = d.model.clone();
            let upd_id = before.docs.keys().next().copied().unwrap_or(1);
            let rem_id = before.docs.keys().nth(1).copied().unwrap_or(upd_id);
            // which calls are queued, in which order: all kinds, or 1-3 of them
            let mut kr = Rng::derive(r.next_u64(), k as u64);
            let mut calls: Vec<GCall> = GCALLS.to_vec();
            kr.shuffle(&mut calls);
            if (k as u64 + variant) % 3 == 2 {
                calls.truncate(1 + kr.usize(3));
            }
            let try_reenable = kr.bool();
            let new_doc = fresh_doc(&mut kr, "gn");

            store.set_gate(true);
            store.set_gate_after(variant % 2 == 1);
            let mut ex: ManualExec<'_, Result<(), String>> = ManualExec::new();
            let e = |r: Result<(), anda_db::error::DBError>| r.map_err(|e| format!("{e:?}"));
            let tr_fut = move |c2: Arc<Collection>, db2: anda_db::database::AndaDB| async move {
                match tr {
                    GTr::Close => e(c2.close().await),
                    GTr::CloseCollection => e(db2.close_collection(COLL).await),
                    GTr::Delete => e(db2.delete_collection(COLL).await),
                    _ => e(db2.close().await),
                }
            };
            // ---- the holder, parked at its k-th backend call
            let th = match holder {
                Some(h) => {
                    let (c2, db2) = (c.clone(), db.clone());
                    ex.spawn(async move {
                        match h {
                            GHolder::Flush => e(c2.flush(anda_db::unix_ms()).await.map(|_| ())),
                            GHolder::DbFlush => e(db2.flush().await),
                            GHolder::CompactBtree => e(c2.compact_btree_index(&["tags"]).await),
                            GHolder::CompactBm25 => e(c2.compact_bm25_index(&["body"]).await),
                            GHolder::Reconcile => e(c2.reconcile_storage().await.map(|_| ())),
                        }
                    })
                }
                None => ex.spawn(tr_fut(c.clone(), db.clone())),
            };
            let mut h_done = false;
            for _ in 0..k {
                if ex.poll(th) {
                    h_done = true;
                    break;
                }
            }
            if h_done {
                store.set_gate(false);
                store.set_gate_after(false);
                break;
            }
            // the transition-as-holder must have published its state by now (it does so before
            // its first backend call); otherwise the calls below are simply early, not judged
            let published_by_holder = holder.is_none() && (c.state() != CollectionState::Active || db.is_read_only());
            if holder.is_none() && !published_by_holder {
                st.count("gate_queue_transition_call_not_published_yet(not judged)");
            }
            // ---- the calls, issued now
            let mark_calls = store.mark();
            let mut tq: Vec<(GCall, usize)> = vec![];
            for call in &calls {
                let call = *call;
                let (c3, nd) = (c.clone(), new_doc.clone());
                let t = ex.spawn(async move {
                    match call {
                        GCall::Add => e(c3.add_from(&nd).await.map(|_| ())),
                        GCall::Update => {
                            let mut p = Patch::new();
                            p.insert("age".into(), Fv::U64(91));
                            p.insert("body".into(), Fv::Text("kernel lemon".into()));
                            e(c3.update(upd_id, p).await.map(|_| ()))
                        }
                        GCall::Remove => e(c3.remove(rem_id).await.map(|_| ())),
                        GCall::SaveExt => e(c3.save_extension("kq".into(), Fv::U64(5)).await),
                        GCall::RemoveExt => e(c3.remove_extension("k0").await.map(|_| ())),
                        GCall::Flush => e(c3.flush(anda_db::unix_ms()).await.map(|_| ())),
                        GCall::CompactBtree => e(c3.compact_btree_index(&["age"]).await),
                        GCall::CompactBm25 => e(c3.compact_bm25_index(&["body"]).await),
                        GCall::Reconcile => e(c3.reconcile_storage().await.map(|_| ())),
                    }
                });
                tq.push((call, t));
            }
            // queued[i]: the call is parked and NOT woken after its first poll = it waits for a
            // lock (the operation gate is the first thing every one of them awaits); a call that
            // is woken sits at a backend call of its own (it was admitted: not "queued")
            // Only an unbroken prefix of parked calls counts: as long as no call issued before it
            // was admitted, a parked call can only wait for the holder (directly or in the
            // gate's queue), not for an inner lock of another admitted call.
            let mut queued: Vec<bool> = vec![];
            let mut wrote: Vec<Vec<String>> = vec![vec![]; tq.len()];
            let mut all_parked_so_far = true;
            for (i, (_, t)) in tq.iter().enumerate() {
                let m = store.mark();
                let done = ex.poll(*t);
                wrote[i].extend(effective_under_prefix(&store, m));
                all_parked_so_far &= !done && !ex.enabled().contains(t);
                queued.push(all_parked_so_far);
            }
            let wrote_before_transition = effective_under_prefix(&store, mark_calls);
            // ---- the transition
            let mut tt: Option<usize> = None;
            match tr {
                GTr::CollReadOnly => c.set_read_only(true),
                GTr::DbReadOnly => db.set_read_only(true),
                GTr::DbReadOnlyThenCollectionSwitchOff => {
                    db.set_read_only(true);
                    c.set_read_only(false);
                }
                GTr::CollReadOnlyLifted => {
                    c.set_read_only(true);
                    c.set_read_only(false);
                }
                GTr::DbReadOnlyLifted => {
                    db.set_read_only(true);
                    db.set_read_only(false);
                }
                GTr::Control => {}
                GTr::PoisonByDrop => ex.cancel(th),
                GTr::PoisonByFault => store.set_fault(if kr.bool() { Fault::FailBefore(store.attempts()) } else { Fault::FailAfter(store.attempts()) }),
                GTr::Close | GTr::CloseCollection | GTr::Delete | GTr::DbClose => {
                    if holder.is_some() {
                        // the call publishes the terminal state at once and then waits for the
                        // gate itself (behind the calls above) or sits at a backend call of the
                        // database
                        let t = ex.spawn(tr_fut(c.clone(), db.clone()));
                        ex.poll(t);
                        tt = Some(t);
                    }
                }
            }
            let published = match tr {
                GTr::Close | GTr::CloseCollection | GTr::Delete => c.state() != CollectionState::Active,
                GTr::DbClose => db.is_read_only(),
                _ => true,
            };
            if tr.is_call() && try_reenable {
                // a retired handle cannot be made writable again
                c.set_read_only(false);
            }
            // ---- open the backend. The holder runs whenever it can (it finishes on its own before
            // any queued call is polled, unless it waits for a lock of the transition call), then
            // the queued calls in their order, then the transition call. Every mutation is
            // attributed to the task whose poll it landed in.
            store.set_gate(false);
            store.set_gate_after(false);
            let mut state_when_calls_resumed: Option<CollectionState> = None;
            let mut steps = 0;
            // the holder alone, as far as it gets: the first parked call must be woken by that
            // (it then really waited for something the holder held - the gate), otherwise
            // nothing of this point is judged as "queued"
            for _ in 0..4000 {
                if !ex.enabled().contains(&th) {
                    break;
                }
                ex.poll(th);
            }
            if ex.is_done(th) {
                store.reset_faults();
            }
            let first_woken_by_holder = tq.first().is_some_and(|(_, t)| ex.enabled().contains(t));
            if queued.first() == Some(&true) && !first_woken_by_holder {
                st.count("gate_queue_parked_call_not_woken_by_the_holder(not judged)");
                queued.iter_mut().for_each(|q| *q = false);
            }
            let deadlock = loop {
                let en = ex.enabled();
                if en.contains(&th) {
                    ex.poll(th);
                    if ex.is_done(th) {
                        // an injected fault is the holder's alone
                        store.reset_faults();
                    }
                } else if let Some(i) = tq.iter().position(|(_, t)| en.contains(t)) {
                    if state_when_calls_resumed.is_none() {
                        state_when_calls_resumed = Some(c.state());
                    }
                    let m = store.mark();
                    ex.poll(tq[i].1);
                    wrote[i].extend(effective_under_prefix(&store, m));
                } else if let Some(t) = tt.filter(|t| en.contains(t)) {
                    ex.poll(t);
                } else {
                    // the backend gate is open and no task is woken: whatever has not returned
                    // by now never will
                    break !ex.all_done();
                }
                steps += 1;
                if steps > 20000 {
                    st.inconclusive("C06 gate_queue: step cap");
                    return;
                }
            };
            store.reset_faults();
            let state_after_holder = state_when_calls_resumed.unwrap_or_else(|| c.state());
            let results: Vec<Option<Result<(), String>>> = tq.iter().map(|(_, t)| ex.take_result(*t)).collect();
            let holder_result = ex.take_result(th);
            let tr_result = tt.and_then(|t| ex.take_result(t));
            drop(ex);
            st.eval();
            st.count("gate_queue_points");
            st.count(&format!("gate_queue:{tr:?}"));
            st.count(&format!("gate_queue_holder:{hname}"));
            let ctx = |extra: Value| {
                json!({"holder": hname, "holder_parked_after_polls": k, "transition": format!("{tr:?}"), "variant": variant,
                    "calls": tq.iter().enumerate().map(|(i, (call, _))| json!({"call": format!("{call:?}"), "waited_at_the_gate": queued[i],
                        "result": format!("{:?}", results[i]), "backend_mutations": wrote[i]})).collect::<Vec<_>>(),
                    "holder_result": format!("{holder_result:?}"), "transition_result": format!("{tr_result:?}"),
                    "state_after_holder": format!("{state_after_holder:?}"), "set_read_only(false)_tried_after_transition": try_reenable,
                    "history": d.history, "extra": extra})
            };
            if deadlock {
                // logical: the backend gate is open, no task is woken, yet calls have not returned
                st.violation(format!("C06/gate_queue/{tr:?}/call_never_returns"), ctx(json!(null)));
                return;
            }
            if holder.is_some() && !wrote_before_transition.is_empty() {
                // a call reached the backend while another one held the exclusive gate: it did
                // not wait, so it is no queued call (measured; C05's business)
                st.count("gate_queue_call_wrote_next_to_the_exclusive_holder(measured)");
            }
            // is the handle refusing when the queued calls get their turn?
            let refusing = match tr {
                GTr::PoisonByDrop | GTr::PoisonByFault => state_after_holder == CollectionState::Poisoned,
                t if t.unjudged() => false,
                _ => published,
            };
            if matches!(tr, GTr::PoisonByDrop | GTr::PoisonByFault) && !refusing {
                st.count(&format!("gate_queue_holder_not_poisoned(not judged):{tr:?}:{hname}"));
            }
            for (i, (call, _)) in tq.iter().enumerate() {
                let accepted = matches!(results[i], Some(Ok(())));
                if tr.unjudged() {
                    if queued[i] {
                        st.count("gate_queue_control_calls");
                        if accepted {
                            st.count(&format!("gate_queue_control_accepted:{call:?}"));
                        }
                        if accepted && call.always_writes() {
                            st.count(if wrote[i].is_empty() { "gate_queue_control_writer_wrote_nothing(measured)" } else { "gate_queue_control_writer_wrote" });
                        }
                    }
                    continue;
                }
                // judged: calls that waited at the gate when the transition began, and calls
                // issued after the parked transition call had published its state
                let judged = refusing && (if holder.is_some() { queued[i] } else { published_by_holder });
                if !judged {
                    st.count("gate_queue_calls_not_judged");
                    continue;
                }
                st.count("gate_queue_calls_judged");
                st.count(&format!("gate_queue_judged:{call:?}"));
                st.count(&format!("gate_queue_judged_under:{tr:?}"));
                st.set("gate_queue_judged_transition_x_call", vcore::fnv_str(&format!("{tr:?}/{call:?}")));
                st.set("gate_queue_judged_holder_x_transition", vcore::fnv_str(&format!("{hname}/{tr:?}")));
                if queued[i] {
                    st.count("gate_queue_judged_calls_that_waited_at_the_gate");
                }
                if !wrote[i].is_empty() {
                    st.violation(format!("C06/gate_queue/{tr:?}/queued_{call:?}_wrote_after_the_transition"), ctx(json!({"call": format!("{call:?}"), "mutations": wrote[i]})));
                    return;
                }
                if accepted {
                    st.violation(format!("C06/gate_queue/{tr:?}/queued_{call:?}_accepted_after_the_transition"), ctx(json!({"call": format!("{call:?}")})));
                    return;
                }
            }
            if tr.unjudged() {
                k += if k < 12 { 1 } else { 3 };
                continue;
            }
            if let Some(Err(err)) = if holder.is_some() { &tr_result } else { &holder_result } {
                st.violation(format!("C06/gate_queue/{tr:?}/transition_failed"), ctx(json!(err)));
                return;
            }
            if !tr.read_only() && refusing && c.state() == CollectionState::Active {
                st.violation(format!("C06/gate_queue/{tr:?}/handle_active_again"), ctx(json!(null)));
                return;
            }
            // ---- nothing of a refused call is stored, now or by a later checkpoint
            let done_delete = tr == GTr::Delete && (holder.is_some() || matches!(holder_result, Some(Ok(()))));
            if done_delete {
                let left = list_prefix(&store).await;
                if !left.is_empty() {
                    st.violation("C06/gate_queue/Delete/objects_left", ctx(json!(left)));
                    return;
                }
            } else if results.iter().any(|r| matches!(r, Some(Ok(())))) || wrote.iter().any(|w| !w.is_empty()) {
                // a call that did not wait (the holder had released the gate already) was admitted
                // before the transition: what is stored now is not the state before the calls
                st.count("gate_queue_reopen_not_audited_because_an_unqueued_call_was_admitted");
            } else if refusing && tr != GTr::Delete {
                if tr.read_only() {
                    // the legitimate switch back, then a checkpoint on the same handle: a refused
                    // call must not have left anything in memory that is persisted now
                    db.set_read_only(false);
                    c.set_read_only(false);
                    if let Err(err) = c.flush(anda_db::unix_ms()).await {
                        st.violation(format!("C06/gate_queue/{tr:?}/flush_after_switching_back_failed"), ctx(json!(format!("{err:?}"))));
                        return;
                    }
                }
                let snap = store.snapshot().await;
                let reopened = async {
                    let db = v_db::connect(snap as Arc<dyn ObjectStore>, &d.cfg).await.map_err(|e| format!("{e:?}"))?;
                    open_coll(&db, IndexSet::ALL).await.map_err(|e| format!("{e:?}"))
                }
                .await;
                match reopened {
                    Ok(nc) => {
                        st.count("gate_queue_reopens_audited");
                        if !audit(&nc, &before, IndexSet::ALL, st, &AuditCtx { sig: &format!("C06/gate_queue/{tr:?}/refused_call_left_a_trace/after_reopen"), ctx: &|| ctx(json!(null)) }).await {
                            return;
                        }
                        let ext: std::collections::BTreeMap<String, u64> =
                            ["k0", "k1", "k2", "kq"].iter().filter_map(|key| nc.get_extension_as::<u64>(key).map(|v| (key.to_string(), v))).collect();
                        if ext != before.ext {
                            st.violation(format!("C06/gate_queue/{tr:?}/refused_call_left_a_trace/extensions_after_reopen"),
                                ctx(json!({"expected": format!("{:?}", before.ext), "got": format!("{ext:?}")})));
                            return;
                        }
                    }
                    Err(err) => {
                        st.violation(format!("C06/gate_queue/{tr:?}/reopen_failed"), ctx(json!(err)));
                        return;
                    }
                }
            }
            st.distinct(vcore::fnv_str(&format!("gq{hname}{tr:?}{k}")) ^ case);
            if k == 1 {
                st.sample(|| json!({"monitor": "gate_queue", "holder": hname, "transition": format!("{tr:?}"), "calls": calls.iter().map(|x| format!("{x:?}")).collect::<Vec<_>>(), "waited_at_the_gate": queued}));
            }
            k += if k < 12 { 1 } else { 3 };
            if k > 400 {
                break;
            }
        }
    });
}

// ---------------------------------------------------------------------------------------------
// the database-level queue: delete_collection waiting at the per-name lifecycle lock when the
// database turns read-only

/// `delete_collection` is not a call ON the handle, so the letter of the property does not cover
/// it: on the unchanged tree a delete that waits at the per-name lock (behind a close_collection
/// or a storage-loading open) when `AndaDB::set_read_only(true)` arrives still erases the
/// collection (patch proposal C06-queued-delete-collection-rechecks-database-read-only). It is
/// MEASURED here; flip this switch once the repository re-checks the mode under the lock.
const ASSERT_DB_QUEUE: bool = false;

fn db_queue_case(case: u64, rng: &mut Rng, st: &mut Stats) {
    let behind_open = case % 2 == 1;
    let wl = rng.fork();
    block_on(async {
        let mut k = 1usize;
        loop {
            let mut r = wl.clone();
            let Some((store, d)) = populate(&mut r, st, 6, case % 4 < 2).await else { return };
            let db = d.db.clone();
            if behind_open && db.close_collection(COLL).await.is_err() {
                return;
            }
            store.set_gate(true);
            let mut ex: ManualExec<'_, Result<(), String>> = ManualExec::new();
            let db1 = db.clone();
            let th = ex.spawn(async move {
                if behind_open {
                    open_coll(&db1, IndexSet::ALL).await.map(|_| ()).map_err(|e| format!("{e:?}"))
                } else {
                    db1.close_collection(COLL).await.map_err(|e| format!("{e:?}"))
                }
            });
            let mut h_done = false;
            for _ in 0..k {
                if ex.poll(th) {
                    h_done = true;
                    break;
                }
            }
            if h_done {
                store.set_gate(false);
                break;
            }
            let db2 = db.clone();
            let tdel = ex.spawn(async move { db2.delete_collection(COLL).await.map_err(|e| format!("{e:?}")) });
            let del_done = ex.poll(tdel);
            let waited = !del_done && !ex.enabled().contains(&tdel);
            db.set_read_only(true);
            store.set_gate(false);
            for _ in 0..4000 {
                if !ex.enabled().contains(&th) {
                    break;
                }
                ex.poll(th);
            }
            let woken_by_holder = ex.enabled().contains(&tdel);
            let mark = store.mark();
            for _ in 0..4000 {
                if !ex.enabled().contains(&tdel) {
                    break;
                }
                ex.poll(tdel);
            }
            let unfinished = !ex.all_done();
            let res = ex.take_result(tdel);
            drop(ex);
            st.eval();
            st.count("db_queue_points");
            if unfinished {
                st.violation("C06/db_queue/call_never_returns", json!({"behind_open": behind_open, "holder_parked_after_polls": k, "history": d.history}));
                return;
            }
            if waited && woken_by_holder {
                let wrote = effective_under_prefix(&store, mark);
                st.count("db_queue_deletes_that_waited_at_the_name_lock");
                if matches!(res, Some(Ok(()))) || !wrote.is_empty() {
                    st.count("db_queue_queued_delete_ran_on_a_read_only_database(measured)");
                    if ASSERT_DB_QUEUE {
                        st.violation("C06/db_queue/queued_delete_collection_ran_after_the_database_became_read_only",
                            json!({"behind_open": behind_open, "holder_parked_after_polls": k, "result": format!("{res:?}"), "mutations": wrote.len(), "first": wrote.iter().take(6).collect::<Vec<_>>(), "history": d.history}));
                        return;
                    }
                } else {
                    st.count("db_queue_queued_delete_refused");
                }
            } else {
                st.count("db_queue_delete_did_not_wait(not judged)");
            }
            k += if k < 6 { 1 } else { 5 };
            if k > 400 {
                break;
            }
        }
    });
}

fn main() {
    // tasks are polled by hand in this binary: see vcore::run::use_plain_block_on
    vcore::run::use_plain_block_on();
    let mut run = Run::from_args(
        "C06",
        "exploration",
        "silence: one evaluation = one transition followed by every mutating API on the retained handle; cancel: one \
         evaluation = one (API, number of polls before the drop) pair, enumerated for k = 1.. until the call completes; \
         queued: one evaluation = one schedule of a transition against 1-2 in-flight operations; gate_queue: one evaluation = \
         one (holder of the exclusive gate, park point k, transition) with 1-9 calls waiting at the gate. Distinct by \
         (transition, history) / (API, k) / (transition, operation count) / (holder, transition, k)",
    );
    run.assume("close() itself is the transition: its final flush of already-acknowledged state is allowed; only calls after it returned (or queued behind it) must be silent");
    run.assume("a collection-level read-only flag may be lifted again by set_read_only(false); only closed / deleted / poisoned handles can never be re-enabled");
    run.assume("a call that was ADMITTED before a read-only switch (it holds its operation lease, e.g. the parked flush itself) may finish its writes; calls still waiting for the operation gate when the switch / close / delete / poison happened may not write at all");
    run.assume("suspension points are the backend calls and lock waits of the async code: each poll of a gated call stops at exactly one of them");
    let t = run.tier;
    if run.wants("silence") {
        run.parallel("silence", t.pick(420, 20000), 0.25, silence_case);
    }
    if run.wants("cancel") {
        run.parallel("cancel", t.pick(78, 2600), 0.5, cancel_case);
    }
    if run.wants("queued") {
        run.parallel("queued", t.pick(24, 600), 0.9, |c, rng, st| queued_case(c, rng, st, t.pick(60, 600)));
    }
    if run.wants("queued_poison") {
        run.parallel("queued_poison", t.pick(84, 1260), 0.95, queued_poison_case);
    }
    if run.wants("gate_queue") {
        let n = gate_scenarios().len() as u64;
        run.parallel("gate_queue", n * t.pick(2, 24), 0.95, gate_queue_case);
    }
    if run.wants("db_queue") {
        run.parallel("db_queue", t.pick(8, 64), 0.95, db_queue_case);
    }
    for tr in TRANSITIONS {
        run.floor(&format!("silence:{tr:?}"), 10);
    }
    // gate_queue: every call kind was judged while it waited at the gate, under every transition;
    // the control scenarios show that the same queued calls are admitted and write otherwise
    run.floor("gate_queue_calls_judged", 2000);
    run.floor("gate_queue_judged_calls_that_waited_at_the_gate", 2000);
    for call in GCALLS {
        run.floor(&format!("gate_queue_judged:{call:?}"), 200);
        run.floor(&format!("gate_queue_control_accepted:{call:?}"), 60);
    }
    for tr in GTRS {
        if !tr.unjudged() {
            run.floor(&format!("gate_queue_judged_under:{tr:?}"), if tr == GTr::PoisonByFault { 60 } else { 200 });
        }
    }
    run.floor_set("gate_queue_judged_transition_x_call", 81);
    run.floor_set("gate_queue_judged_holder_x_transition", 40);
    run.floor("gate_queue_control_writer_wrote", 300);
    run.floor("gate_queue_reopens_audited", 250);
    run.floor("db_queue_deletes_that_waited_at_the_name_lock", 20);
    run.floor("queued_behind_poisoning_drop_judged", 50);
    run.floor("queued_behind_readonly_judged", 30);
    run.floor("reopen_while_a_call_of_the_poisoned_handle_is_in_flight", 10);
    for q in [QOp::Flush, QOp::CompactBtree, QOp::Close] {
        run.floor(&format!("queued_behind_poisoning_drop:{q:?}"), 2);
    }
    run.floor("cancelled_delete_with_partial_effect", 2);
    for a in APIS {
        run.floor(&format!("cancelled:{a:?}"), 2);
    }
    run.floor("cancellation_points", 300);
    run.floor("reopens_after_cancellation_audited", 200);
    run.floor("queued_schedules_run", 300);
    run.floor("silence_calls_on_retired_or_readonly_handle", 3000);
    run.finish();
}

//! C18 - Reading AS OF a past point returns what was current then.
//!
//! Record/replay differential between the live engine (index-driven) and the historical engine
//! (version-log reconstruction): histories of committed statements and schema activations (core
//! only / a test package in two versions whose `reads` predicate turns functional), half of them
//! closed and reopened once; after every commit `s` a battery of queries is executed and recorded;
//! after the next commit and at the end every recorded answer is replayed with `AS OF SEQ s` /
//! `AS OF TX <tx of s>` / `AS OF TIME <committed_at of s>` / in a request bound to the snapshot
//! token of `s`, and must be equal. Plus: the epistemic payload of every Assertion / Evidence is
//! identical in all of its version rows (direct scan of `element_versions`).

use anda_cognitive_nexus::CognitiveNexus;
use anda_cognitive_nexus::nexus::DEFAULT_SPACE;
use anda_cognitive_nexus::schema::{PackageState, SchemaLock, SchemaPackage};
use anda_kip::{Executor, Request};
use object_store::memory::InMemory;
use serde_json::{Map, Value};
use std::collections::{BTreeMap, BTreeSet};
use std::sync::Arc;
use v_nexus::nx1718::*;
use vcore::{Rng, Run, Stats, json};

// ---------------------------------------------------------------------------------------------
// schema environments of a history: the bundled profile alone never changes what a projection
// computes, so a small second package comes in two versions - `reads` is an ordinary predicate
// in 1.0.0 and a functional (single-valued) one in 2.0.0, where support for a rival value
// opposes. A read AS OF a coordinate has to project under the version in force there.

const READS_ID: &str = "kip://test/c18";

fn reads_package(version: &str, functional: bool) -> String {
    format!(
        r#"{{"format": "KIP-Schema-Package", "manifest": {{"package_id": "{READS_ID}", "version": "{version}"}},
            "definitions": {{"predicates": {{"reads": {{"kind": "PredicateType",
            "description": "What somebody is reading. Single-valued from 2.0.0 on.", "functional": {functional}}}}}}}}}"#
    )
}

#[derive(Clone, Copy, PartialEq, Debug)]
enum Env {
    /// no package in force (core symbols only)
    Core,
    /// profile + `reads` as an ordinary predicate
    Plain,
    /// profile + `reads` functional
    Functional,
}

fn lock_of(env: Env) -> SchemaLock {
    let mut lock = match env {
        Env::Core => return SchemaLock::default(),
        _ => profile_lock(),
    };
    lock.packages.insert(READS_ID.to_string(), if env == Env::Plain { "1.0.0" } else { "2.0.0" }.to_string());
    lock.states.insert(READS_ID.to_string(), PackageState::Active);
    lock
}

/// Two rival values of one `reads` slot, each claimed once: under the functional version each
/// claim opposes the other value, under the plain one they coexist.
fn reads_statement(rng: &mut Rng, w: &World) -> Option<Cmd> {
    let subject = w.active_of_type("Person").first().map(|e| e.id.clone())?;
    let others: Vec<String> = World::active(&w.concepts).iter().filter(|c| c.id != subject).map(|c| c.id.clone()).collect();
    if others.len() < 2 {
        return None;
    }
    let o1 = rng.pick(&others).clone();
    let o2 = rng.pick(&others).clone();
    if o1 == o2 {
        return None;
    }
    let by2 = if rng.bool() { subject.clone() } else { o1.clone() };
    let text = format!(
        "MUTATE {{\n  ENSURE PROPOSITION ?g1 (:gs, \"reads\", :go1)\n  ENSURE PROPOSITION ?g2 (:gs, \"reads\", :go2)\n  \
         CREATE ASSERTION ?ga1 {{ SET FIELDS {{proposition: ?g1, asserted_by: {}, stance: \"support\", mode: \"stated\", confidence: 0.{}}} }}\n  \
         CREATE ASSERTION ?ga2 {{ SET FIELDS {{proposition: ?g2, asserted_by: {}, stance: \"support\", mode: \"observed\", confidence: 0.{}}} }}\n}}",
        jstr(&subject), rng.range(1, 9), jstr(&by2), rng.range(1, 9)
    );
    Some(Cmd::new(text).param("gs", json!(subject)).param("go1", json!(o1)).param("go2", json!(o2)))
}

/// Takes an element out of ordinary recall that other elements hang on: a Concept with
/// structural references or one that is an endpoint of active Propositions, or such a
/// Proposition itself. Every pattern family has its own "active only" check in the historical
/// engine; they only matter once connected elements are archived / tombstoned.
fn shelve_statement(rng: &mut Rng, w: &World, sc: &Scan) -> Option<Cmd> {
    let rows = elements(sc);
    let props = World::active(&w.props);
    let mut targets: Vec<String> = World::active(&w.concepts)
        .iter()
        .filter(|c| {
            rows.get(&c.id).map(|r| r["structural"].as_object().map(|m| !m.is_empty()).unwrap_or(false)).unwrap_or(false)
                || props.iter().any(|p| p.subject == c.id || p.object == c.id)
        })
        .map(|c| c.id.clone())
        .collect();
    targets.extend(props.iter().filter(|p| p.typ == "same_as").map(|p| p.id.clone()));
    if targets.is_empty() {
        return None;
    }
    let t = rng.pick(&targets).clone();
    let verb = if rng.chance(3, 4) { "ARCHIVE" } else { "TOMBSTONE" };
    Some(Cmd::new(format!("{verb} {}", jstr(&t))))
}

// ---------------------------------------------------------------------------------------------
// the battery

#[derive(Clone, Debug)]
struct Q {
    family: &'static str,
    /// `FIND(..) WHERE { .. }`
    head: String,
    /// everything after the AS OF position: FOR TIME / WITH EPISTEMIC / ORDER BY / LIMIT / CURSOR
    tail: String,
    params: Map<String, Value>,
    /// row order is part of the answer
    ordered: bool,
    /// top-level members of the answer that name the read coordinate itself (excluded)
    drop_keys: &'static [&'static str],
}

impl Q {
    fn text(&self, as_of: &str) -> String {
        let mut t = self.head.clone();
        if !as_of.is_empty() {
            t.push(' ');
            t.push_str(as_of);
        }
        if !self.tail.is_empty() {
            t.push(' ');
            t.push_str(&self.tail);
        }
        t
    }
}

/// A stable, readable name of the query shape: the WHERE block and the tail with element ids
/// and other instance data replaced, e.g. `c_concept_id_ID_state_active`.
fn shape_name(qu: &Q) -> String {
    let w = qu.head.split_once("WHERE").map(|x| x.1).unwrap_or(&qu.head);
    if !qu.head.contains("WHERE") {
        return qu.head.replace(' ', "_");
    }
    let proj = if qu.head.contains("COUNT(") || qu.head.contains("MAX(") || qu.head.contains("SUM(") { "agg_" } else { "" };
    let mut text = format!("{w} {}", qu.tail.replace(PIN_TIME, "PIN"));
    for st in ["active", "archived", "tombstoned", "merged"] {
        text = text.replace(&format!("state: \"{st}\""), "state: S");
    }
    let mut out = String::from(proj);
    let mut word = String::new();
    let flush = |word: &mut String, out: &mut String| {
        if word.is_empty() {
            return;
        }
        let is_id = word.len() >= 3 && word.as_bytes()[1] == b'-' && word[2..].chars().all(|c| c.is_ascii_digit());
        let is_inst = word.chars().any(|c| c.is_ascii_digit()) && word.contains('_');
        if !out.is_empty() && !out.ends_with('_') {
            out.push('_');
        }
        out.push_str(if is_id { "ID" } else if is_inst { "X" } else { word.as_str() });
        word.clear();
    };
    for ch in text.chars() {
        if ch.is_ascii_alphanumeric() || ch == '-' || ch == '_' {
            word.push(ch);
        } else {
            flush(&mut word, &mut out);
        }
    }
    flush(&mut word, &mut out);
    out.truncate(90);
    out
}

fn q(family: &'static str, head: impl Into<String>) -> Q {
    Q { family, head: head.into(), tail: String::new(), params: Map::new(), ordered: false, drop_keys: &[] }
}

impl Q {
    fn tail(mut self, t: impl Into<String>) -> Q {
        self.tail = t.into();
        self.ordered = self.tail.contains("ORDER BY");
        self
    }
    fn drop(mut self, keys: &'static [&'static str]) -> Q {
        self.drop_keys = keys;
        self
    }
    fn p(mut self, k: &str, v: &str) -> Q {
        self.params.insert(k.into(), json!(v));
        self
    }
}

fn for_pin() -> String {
    format!("FOR TIME \"{PIN_TIME}\"")
}

const READS_BELIEF: &str = "FIND(?p.id, ?o.id, ?b.status, ?b.support.score, ?b.opposition.score) WHERE { ?p PROPOSITION (?s, \"reads\", ?o) ?b BELIEF (?p) }";

/// The battery at one coordinate: fixed query shapes, the id-bearing ones instantiated with
/// elements that exist now (seeded choice).
fn battery(w: &World, all: &World, sc: &Scan, rng: &mut Rng) -> Vec<Q> {
    let mut b = vec![
        // element patterns (whole views: every field incl. _system is compared)
        q("element", "FIND(?c) WHERE { ?c CONCEPT {} }"),
        q("element", "FIND(?c.id, ?c.name, ?c.attributes, ?c.facets) WHERE { ?c CONCEPT {type: \"Person\"} }"),
        q("element", "FIND(?c.id, ?c._system.version) WHERE { ?c CONCEPT {type: \"Insight\"} }"),
        q("element", "FIND(?c) WHERE { ?c CONCEPT {state: \"archived\"} }"),
        q("element", "FIND(?c.id, ?c._system) WHERE { ?c CONCEPT {state: \"tombstoned\"} }"),
        q("element", "FIND(?c.id, ?c._system.state) WHERE { ?c CONCEPT {state: \"merged\"} }"),
        q("element", "FIND(?a) WHERE { ?a ASSERTION {} }"),
        q("element", "FIND(?a.id, ?a.lifecycle) WHERE { ?a ASSERTION {status: \"retracted\"} }"),
        q("element", "FIND(?a.id, ?a.lifecycle) WHERE { ?a ASSERTION {status: \"superseded\"} }"),
        q("element", "FIND(?a.id, ?a.confidence) WHERE { ?a ASSERTION {stance: \"support\", mode: \"stated\"} }"),
        q("element", "FIND(?a.id, ?p) WHERE { ?a ASSERTION {proposition: ?p} }"),
        q("element", "FIND(?e) WHERE { ?e EVIDENCE {} }"),
        q("element", "FIND(?e.id, ?e.lifecycle) WHERE { ?e EVIDENCE {status: \"corrected\"} }"),
        q("element", "FIND(?x) WHERE { ?x ACTIVITY {} }"),
        q("element", "FIND(?x.id) WHERE { ?x ACTIVITY {status: \"completed\"} }"),
        q("element", "FIND(?x.id, ?x._system.state) WHERE { ?x ACTIVITY {state: \"archived\"} }"),
        // matcher keys the live engine decides in three different ways: by an index (type, key,
        // name, state, class, status ...), against the rendered view (everything else, and every
        // key once `id` is named), or by binding a variable
        q("element", "FIND(?c.id, ?n, ?s) WHERE { ?c CONCEPT {name: ?n, state: ?s} }"),
        q("element", "FIND(?c.id) WHERE { ?c CONCEPT {type: \"Person\", key: \"\"} }"),
        q("element", "FIND(?a.id) WHERE { ?a ASSERTION {confidence: 0.5} }"),
        q("element", "FIND(?a.id, ?who) WHERE { ?a ASSERTION {asserted_by: ?who, stance: \"reject\"} }"),
        q("element", "FIND(?a.id, ?a.lifecycle.status) WHERE { ?a ASSERTION {state: \"archived\"} }"),
        q("element", "FIND(?e.id) WHERE { ?e EVIDENCE {class: \"user_statement\", status: \"active\"} }"),
        q("element", "FIND(?e.id, ?x) WHERE { ?e EVIDENCE {generated_by: ?x} }"),
        q("element", "FIND(?x.id, ?x.status) WHERE { ?x ACTIVITY {class: \"reflection\"} }"),
        q("element", "FIND(?x.id) WHERE { ?x ACTIVITY {status: \"running\"} }"),
        // tuple patterns
        q("tuple", "FIND(?p) WHERE { ?p PROPOSITION (?s, ?pr, ?o) }"),
        q("tuple", "FIND(?p.id, ?s.name, ?o.name) WHERE { ?p PROPOSITION (?s, \"prefers\", ?o) }"),
        q("tuple", "FIND(?s.id, ?pr, ?o.id) WHERE { (?s, ?pr, ?o) }"),
        q("tuple", "FIND(?x.id, ?y.id) WHERE { (?x, \"prefers\" | \"same_as\", ?y) }"),
        // structural
        q("structural", "FIND(?x.id, ?y.id) WHERE { STRUCTURAL (?x, \"about\", ?y) }"),
        q("structural", "FIND(?x.name, ?y.name) WHERE { STRUCTURAL (?x, \"mentions\", ?y) }"),
        // hop-quantified paths
        q("path", "FIND(?a.id, ?b.id) WHERE { (?a, \"same_as\"{1,3}, ?b) }"),
        q("path", "FIND(?a.id, ?b.id) WHERE { ?a CONCEPT {type: \"Person\"} (?a, \"same_as\"{0,2}, ?b) }"),
        q("path", "FIND(?a.id, ?b.id) WHERE { (?a, \"prefers\"{1,2} | \"same_as\"{2}, ?b) }"),
        // NOT / OPTIONAL / UNION
        q("not_optional_union", "FIND(?c.id) WHERE { ?c CONCEPT {type: \"Person\"} NOT { (?c, \"prefers\", ?x) } }"),
        q("not_optional_union", "FIND(?c.id, ?x.id) WHERE { ?c CONCEPT {type: \"Person\"} OPTIONAL { (?c, \"prefers\", ?x) } }"),
        q("not_optional_union", "FIND(?c.id) WHERE { ?c CONCEPT {type: \"Insight\"} UNION { ?c CONCEPT {type: \"Event\"} } }"),
        q("not_optional_union", "FIND(?a.id) WHERE { ?a ASSERTION {} NOT { ?a ASSERTION {status: \"active\"} } }"),
        // FILTER
        q("filter", "FIND(?c.id, ?c.attributes.note) WHERE { ?c CONCEPT {} FILTER(?c.attributes.note > 40) }"),
        q("filter", "FIND(?c.id) WHERE { ?c CONCEPT {} FILTER(CONTAINS(?c.name, \"1\")) }"),
        q("filter", "FIND(?c.id, ?c._system.version) WHERE { ?c CONCEPT {} FILTER(?c._system.version > 1) }"),
        q("filter", "FIND(?a.id) WHERE { ?a ASSERTION {} FILTER(?a.confidence >= 0.5 && ?a.lifecycle.status == \"active\") }"),
        q("filter", "FIND(?c.id) WHERE { ?c CONCEPT {} FILTER(?c.facets[\"MnemonicState\"].salience > 0.4) }"),
        q("filter", "FIND(?c.id) WHERE { ?c CONCEPT {} FILTER(IS_NOT_NULL(?c.retention.retention_class)) }"),
        // aggregates
        q("aggregate", "FIND(COUNT(?c)) WHERE { ?c CONCEPT {} }"),
        q("aggregate", "FIND(COUNT(?p), COUNT(DISTINCT ?s)) WHERE { ?p PROPOSITION (?s, ?pr, ?o) }"),
        q("aggregate", "FIND(MAX(?a.confidence), MIN(?a.confidence), AVG(?a.confidence)) WHERE { ?a ASSERTION {} }"),
        q("aggregate", "FIND(SUM(?c.attributes.note)) WHERE { ?c CONCEPT {type: \"Person\"} }"),
        q("aggregate", "FIND(COUNT(?e)) WHERE { ?e EVIDENCE {status: \"active\"} }"),
        // ORDER BY + LIMIT (sort keys are unique per row by construction)
        q("order_limit", "FIND(?c.id, ?c.name) WHERE { ?c CONCEPT {} }").tail("ORDER BY ?c.name DESC LIMIT 3"),
        q("order_limit", "FIND(?c.id, ?c._system.version) WHERE { ?c CONCEPT {} }").tail("ORDER BY ?c._system.version DESC, ?c.id ASC LIMIT 4"),
        q("order_limit", "FIND(?a.id, ?a.confidence) WHERE { ?a ASSERTION {} }").tail("ORDER BY ?a.confidence ASC, ?a.id DESC LIMIT 3"),
        q("order_limit", "FIND(?c.id) WHERE { ?c CONCEPT {} }").tail("ORDER BY ?c.id ASC LIMIT 2 CURSOR 2"),
        // BELIEF (world time pinned)
        q("belief", "FIND(?p.id, ?b) WHERE { ?p PROPOSITION (?s, ?pr, ?o) ?b BELIEF (?p) }").tail(for_pin()),
        q("belief", "FIND(?p.id, ?b.status, ?b.support.score, ?b.opposition.score) WHERE { ?p PROPOSITION (?s, \"prefers\", ?o) ?b BELIEF (?p) }")
            .tail("FOR TIME \"2027-01-01T00:00:00Z\""),
        q("belief", "FIND(?p.id, ?b.status) WHERE { ?p PROPOSITION (?s, ?pr, ?o) ?b BELIEF (?p) }")
            .tail(format!("{} WITH EPISTEMIC {{purpose: \"answer_user\", risk: \"low\", include_hypothetical: true, explanation: \"ledger\"}}", for_pin())),
        // a predicate whose definition differs between the schema versions of the history
        q("belief", READS_BELIEF).tail(for_pin()),
        q("tuple", "FIND(?s.id, ?o.id) WHERE { (?s, \"reads\", ?o) }"),
        // META commands that take a coordinate
        q("meta_as_of", "DESCRIBE SCHEMA ENVIRONMENT").drop(&["snapshot_seq"]),
        q("meta_as_of", "SNAPSHOT"),
        q("meta_as_of", "DESCRIBE SNAPSHOT"),
        // FOR TIME on raw assertion rows
        q("for_time", "FIND(?a.id) WHERE { ?a ASSERTION {} }").tail("FOR TIME \"2027-01-01T00:00:00Z\""),
        q("for_time", "FIND(?a.id) WHERE { ?a ASSERTION {} }").tail("FOR TIME \"2032-01-01T00:00:00Z\""),
    ];
    // id-bearing instances
    let pick = |v: &[El], rng: &mut Rng| -> Option<El> { if v.is_empty() { None } else { Some(rng.pick(v).clone()) } };
    if let Some(c) = pick(&all.concepts, rng) {
        b.push(q("element", format!("FIND(?c) WHERE {{ ?c CONCEPT {{id: {}}} }}", jstr(&c.id))));
        b.push(q("element", format!("FIND(?c.id, ?c._system.state) WHERE {{ ?c CONCEPT {{id: {}, state: {}}} }}", jstr(&c.id), jstr(&c.state))));
        // an id together with constraints that may or may not hold for it (the id lookup skips
        // the indexes, the constraints must still decide)
        b.push(q("element", format!("FIND(?c.id) WHERE {{ ?c CONCEPT {{state: \"archived\", id: {}}} }}", jstr(&c.id))));
        b.push(q("element", format!("FIND(?c.id) WHERE {{ ?c CONCEPT {{id: {}, type: \"Person\"}} }}", jstr(&c.id))));
        let rows = elements(sc);
        let name_of = |id: &str| rows.get(id).and_then(|r| r["name"].as_str()).unwrap_or("").to_string();
        let other = pick(&all.concepts, rng).map(|o| name_of(&o.id)).unwrap_or_default();
        if !other.is_empty() {
            // `other` is this Concept's own name in about 1 of n cases
            b.push(q("element", format!("FIND(?c.id) WHERE {{ ?c CONCEPT {{id: {}, name: {}}} }}", jstr(&c.id), jstr(&other))));
            b.push(q("element", format!("FIND(?c.id, ?c._system.version) WHERE {{ ?c CONCEPT {{name: {}}} }}", jstr(&other))));
        }
        b.push(q("tuple", "FIND(?p.id, ?o) WHERE { ?p PROPOSITION (:s, ?pr, ?o) }").p("s", &c.id));
        b.push(q("structural", "FIND(?y.id) WHERE { STRUCTURAL (:x, \"about\", ?y) }").p("x", &c.id));
        b.push(q("path", "FIND(?b.id) WHERE { (:a, \"same_as\"{1,3}, ?b) }").p("a", &c.id));
        b.push(q("belief_slot", "FIND(?slot) WHERE { ?slot BELIEF SLOT (:c, \"prefers\") }").p("c", &c.id).tail(for_pin()));
        b.push(q("belief_slot", "FIND(?slot) WHERE { ?slot BELIEF SLOT (:c, \"same_as\") }").p("c", &c.id).tail(for_pin()));
    }
    if let Some(c) = all.concepts.iter().find(|c| c.typ == "Person") {
        // the subject `reads_statement` uses while it is active
        b.push(q("belief_slot", "FIND(?slot) WHERE { ?slot BELIEF SLOT (:c, \"reads\") }").p("c", &c.id).tail(for_pin()));
    }
    if let Some(c) = all.concepts.iter().find(|c| !c.key.is_empty()) {
        b.push(q("element", format!("FIND(?c.id, ?c.name) WHERE {{ ?c CONCEPT {{type: {}, key: {}}} }}", jstr(&c.typ), jstr(&c.key))));
    }
    if let Some(p) = pick(&all.props, rng) {
        b.push(q("tuple", format!("FIND(?p, ?s.id) WHERE {{ ?p PROPOSITION (id: {}) }}", jstr(&p.id)).replace(", ?s.id", "")));
        b.push(q("belief", format!("FIND(?b) WHERE {{ ?b BELIEF (id: {}) }}", jstr(&p.id))).tail(for_pin()));
        b.push(q("element", format!("FIND(?a.id, ?a.stance) WHERE {{ ?a ASSERTION {{proposition: {}}} }}", jstr(&p.id))));
        if !p.subject.is_empty() && !p.object.is_empty() {
            b.push(q("belief", "FIND(?b.status, ?b.support) WHERE { ?b BELIEF (:s, :pr, :o) }")
                .p("s", &p.subject).p("pr", &p.typ).p("o", &p.object).tail(for_pin()));
            b.push(q("tuple", "FIND(?p.id) WHERE { ?p PROPOSITION (:s, :pr, :o) }").p("s", &p.subject).p("pr", &p.typ).p("o", &p.object));
        }
    }
    if let (Some(a), Some(c)) = (pick(&w.concepts, rng), pick(&w.concepts, rng)) {
        // a tuple that was (most likely) never stored: BELIEF answers `insufficient`, not zero rows
        b.push(q("belief", "FIND(?b.status) WHERE { ?b BELIEF (:s, \"same_as\", :o) }").p("s", &a.id).p("o", &c.id).tail(for_pin()));
    }
    if let Some(a) = pick(&all.assertions, rng) {
        b.push(q("element", format!("FIND(?a) WHERE {{ ?a ASSERTION {{id: {}}} }}", jstr(&a.id))));
        b.push(q("element", format!("FIND(?a.id) WHERE {{ ?a ASSERTION {{id: {}, status: \"active\", stance: \"support\"}} }}", jstr(&a.id))));
    }
    if let Some(e) = pick(&all.evidence, rng) {
        b.push(q("element", format!("FIND(?e) WHERE {{ ?e EVIDENCE {{id: {}}} }}", jstr(&e.id))));
        b.push(q("element", format!("FIND(?e.id) WHERE {{ ?e EVIDENCE {{id: {}, status: \"corrected\"}} }}", jstr(&e.id))));
    }
    b
}

/// every element of the default Space regardless of state (the id-bearing queries also target
/// archived / tombstoned / merged ones)
fn world_all(scan: &Scan) -> World {
    let mut w = world_of(scan);
    w.foreign_concept = None;
    w
}

fn world_active(w: &World) -> World {
    let f = |v: &Vec<El>| v.iter().filter(|e| e.state == "active").cloned().collect();
    World {
        concepts: f(&w.concepts),
        props: f(&w.props),
        assertions: f(&w.assertions),
        evidence: f(&w.evidence),
        activities: f(&w.activities),
        foreign_concept: None,
    }
}

// ---------------------------------------------------------------------------------------------
// answers and their comparison

/// marks the fourth way of naming a coordinate: the request envelope's `read.snapshot_token`
const TOKEN_FORM: &str = "\u{1}snapshot_token:";

fn shown(qu: &Q, as_of: &str) -> String {
    match as_of.strip_prefix(TOKEN_FORM) {
        Some(token) => format!("{}   [request envelope: read.snapshot_token = {token}]", qu.text("")),
        None => qu.text(as_of),
    }
}

/// The query as written (no AS OF) in a request bound to a snapshot token.
async fn ask_bound(nexus: &CognitiveNexus, qu: &Q, token: &str) -> Result<Result<Value, String>, String> {
    let request: Request = serde_json::from_value(json!({
        "kip": "2.0",
        "read": {"snapshot_token": token},
        "operations": [{"command": qu.text(""), "parameters": Value::Object(qu.params.clone())}],
    }))
    .map_err(|e| format!("request envelope: {e}"))?;
    let parsed = request.operations[0].parse().map_err(|e| format!("battery query does not parse: {}: {}", e.name(), e.message))?;
    let response = nexus.execute(parsed, &request, &request.operations[0]).await;
    let raw = serde_json::to_value(&response).map_err(|e| format!("response encode: {e}"))?;
    Ok(if raw["status"] == "succeeded" {
        let mut r = raw["results"][0]["result"].clone();
        if qu.tail.contains("LIMIT") {
            r = json!({"rows": r, "next_cursor": raw["results"][0]["next_cursor"]});
        }
        Ok(r)
    } else {
        let err = if raw["error"].is_object() { &raw["error"] } else { &raw["results"][0]["error"] };
        Err(err["code"].as_str().unwrap_or("").to_string())
    })
}

/// `Ok(payload)` or `Err(error code)`; only the operation result payload is an answer.
async fn ask(nexus: &CognitiveNexus, qu: &Q, as_of: &str) -> Result<Result<Value, String>, String> {
    if let Some(token) = as_of.strip_prefix(TOKEN_FORM) {
        return ask_bound(nexus, qu, token).await;
    }
    let mut cmd = Cmd::new(qu.text(as_of));
    cmd.params = qu.params.clone();
    let o = exec(&Via::System(nexus), &cmd).await?;
    if let Some(p) = o.parse_error {
        return Err(format!("battery query does not parse: {p}: {}", cmd.text));
    }
    Ok(if o.succeeded {
        let mut r = o.result;
        if let Some(m) = r.as_object_mut() {
            for k in qu.drop_keys {
                m.remove(*k);
            }
        }
        if qu.tail.contains("LIMIT") {
            // a paged answer is its window and the cursor that continues it
            r = json!({"rows": r, "next_cursor": o.raw["results"][0]["next_cursor"]});
        }
        Ok(r)
    } else {
        Err(o.error_code)
    })
}

/// Numbers are compared to 12 significant digits: an aggregate over floats depends on the order
/// in which the rows are summed, which no query fixes.
fn round_floats(v: &Value) -> Value {
    match v {
        Value::Number(n) if n.is_f64() => {
            let f = n.as_f64().unwrap_or(0.0);
            json!(format!("{f:.11e}"))
        }
        Value::Array(a) => Value::Array(a.iter().map(round_floats).collect()),
        Value::Object(m) => Value::Object(m.iter().map(|(k, v)| (k.clone(), round_floats(v))).collect()),
        x => x.clone(),
    }
}

/// rows present on one side only (multiset difference by canonical text), for the detail JSON
fn row_diff(a: &Result<Value, String>, b: &Result<Value, String>) -> Value {
    let (Ok(Value::Array(a)), Ok(Value::Array(b))) = (a, b) else {
        return Value::Null;
    };
    let mut left: Vec<String> = a.iter().map(canon).collect();
    let mut right: Vec<String> = vec![];
    for r in b.iter().map(canon) {
        if let Some(i) = left.iter().position(|x| *x == r) {
            left.remove(i);
        } else {
            right.push(r);
        }
    }
    let cut = |v: Vec<String>| -> Vec<String> {
        v.into_iter().take(3).map(|s| if s.len() > 1800 { format!("{}...", &s[..s.char_indices().take_while(|(i, _)| *i < 1800).last().map(|x| x.0).unwrap_or(0)]) } else { s }).collect()
    };
    json!({"rows_only_in_recorded": cut(left), "rows_only_in_replayed": cut(right)})
}

fn deep_sort(v: &Value) -> Value {
    match v {
        Value::Array(a) => {
            let mut a: Vec<Value> = a.iter().map(deep_sort).collect();
            a.sort_by_key(canon);
            Value::Array(a)
        }
        Value::Object(m) => Value::Object(m.iter().map(|(k, v)| (k.clone(), deep_sort(v))).collect()),
        x => x.clone(),
    }
}

#[derive(PartialEq, Debug)]
enum Cmp {
    Equal,
    /// equal once array order is ignored where it carries no meaning
    OrderOnly,
    /// equal to 12 significant digits
    FloatRounding,
    Different,
}

/// Where order carries no meaning: the row sequence of a query without ORDER BY, and - for the
/// BELIEF families only - the lists inside a projection object (ledger id lists, the candidates
/// of a slot), which follow the engine's candidate enumeration order. The column order inside a
/// row and every list inside an element view (aliases, supersedes, structural references ...)
/// are part of the answer and compared as they are.
fn normalize(v: &Value, ordered: bool, loose_inside: bool) -> Value {
    let inside = |x: &Value| if loose_inside { deep_sort(x) } else { x.clone() };
    match v {
        Value::Array(rows) => {
            let mut rows: Vec<Value> = rows
                .iter()
                .map(|row| match row {
                    Value::Array(cols) => Value::Array(cols.iter().map(inside).collect()),
                    other => inside(other),
                })
                .collect();
            if !ordered {
                rows.sort_by_key(canon);
            }
            Value::Array(rows)
        }
        other => inside(other),
    }
}

/// Paths (indices stripped) of the lists that differ as sequences but not as multisets.
fn reordered_lists(a: &Value, b: &Value, path: &str, out: &mut BTreeSet<String>) {
    match (a, b) {
        (Value::Array(x), Value::Array(y)) if x.len() == y.len() => {
            let key = |v: &Value| canon(&deep_sort(v));
            let (mut ox, mut oy): (Vec<&Value>, Vec<&Value>) = (x.iter().collect(), y.iter().collect());
            if !ox.iter().zip(&oy).all(|(p, q)| key(p) == key(q)) {
                ox.sort_by_key(|v| key(v));
                oy.sort_by_key(|v| key(v));
                if !ox.iter().zip(&oy).all(|(p, q)| key(p) == key(q)) {
                    return;
                }
                out.insert(if path.is_empty() { "<rows>".to_string() } else { path.to_string() });
            }
            for (p, q) in ox.into_iter().zip(oy) {
                reordered_lists(p, q, &format!("{path}[]"), out);
            }
        }
        (Value::Object(x), Value::Object(y)) => {
            for (k, vx) in x {
                if let Some(vy) = y.get(k) {
                    reordered_lists(vx, vy, &if path.is_empty() { k.clone() } else { format!("{path}.{k}") }, out);
                }
            }
        }
        _ => {}
    }
}

/// The first place (path, recorded, replayed) where two normalized answers differ.
fn first_difference(a: &Value, b: &Value, path: &str) -> Option<Value> {
    match (a, b) {
        (Value::Array(x), Value::Array(y)) if x.len() == y.len() => x.iter().zip(y).enumerate().find_map(|(i, (p, q))| first_difference(p, q, &format!("{path}[{i}]"))),
        (Value::Object(x), Value::Object(y)) if x.keys().eq(y.keys()) => x.iter().find_map(|(k, p)| first_difference(p, &y[k], &format!("{path}.{k}"))),
        _ if canon(a) == canon(b) => None,
        _ => Some(json!({"at": path, "recorded": clip(&canon(a)), "replayed": clip(&canon(b))})),
    }
}

fn explain_difference(live: &Result<Value, String>, replay: &Result<Value, String>, qu: &Q) -> Value {
    let (Ok(a), Ok(b)) = (live, replay) else {
        return Value::Null;
    };
    let loose_inside = matches!(qu.family, "belief" | "belief_slot");
    first_difference(&normalize(a, qu.ordered, loose_inside), &normalize(b, qu.ordered, loose_inside), "").unwrap_or(Value::Null)
}

fn compare(live: &Result<Value, String>, replay: &Result<Value, String>, qu: &Q) -> Cmp {
    // float aggregates (SUM / AVG) and projection scores depend on the order the rows were
    // folded in, which no query fixes
    let floats_free = matches!(qu.family, "aggregate" | "belief" | "belief_slot");
    let loose_inside = matches!(qu.family, "belief" | "belief_slot");
    match (live, replay) {
        (Err(a), Err(b)) => {
            if a == b { Cmp::Equal } else { Cmp::Different }
        }
        (Ok(a), Ok(b)) => {
            if canon(a) == canon(b) {
                return Cmp::Equal;
            }
            if floats_free && canon(&round_floats(a)) == canon(&round_floats(b)) {
                return Cmp::FloatRounding;
            }
            let norm = |v: &Value| normalize(v, qu.ordered, loose_inside);
            if canon(&norm(a)) == canon(&norm(b)) {
                Cmp::OrderOnly
            } else if floats_free && canon(&norm(&round_floats(a))) == canon(&norm(&round_floats(b))) {
                Cmp::FloatRounding
            } else {
                Cmp::Different
            }
        }
        _ => Cmp::Different,
    }
}

struct Recorded {
    seq: u64,
    tx_id: String,
    committed_at: String,
    /// what kind of commit produced the coordinate
    kinds: Vec<&'static str>,
    qs: Vec<(Q, Result<Value, String>)>,
}

// ---------------------------------------------------------------------------------------------
// payload immutability (direct scan of the version log)

const ASSERTION_PAYLOAD: [&str; 12] = [
    "proposition_id", "asserted_by", "asserted_by_key", "stance", "mode", "confidence", "asserted_at",
    "valid_from", "valid_until", "evidence_refs", "evidence_ids", "context_refs",
];
const EVIDENCE_PAYLOAD: [&str; 10] = [
    "evidence_class", "payload_mode", "payload_inline", "content_ref", "content_digest", "media_type",
    "observed_at", "source_refs", "source_keys", "generated_by",
];

fn check_payloads(scan: &Scan, st: &mut Stats, ctx: &dyn Fn() -> Value) {
    let mut per: BTreeMap<String, Vec<&Value>> = BTreeMap::new();
    for r in scan["element_versions"].values() {
        let el = r["element"].as_str().unwrap_or("");
        if el.starts_with("A-") || el.starts_with("E-") {
            per.entry(el.to_string()).or_default().push(r);
        }
    }
    let cur = elements(scan);
    for (el, rows) in per {
        let fields: &[&str] = if el.starts_with("A-") { &ASSERTION_PAYLOAD } else { &EVIDENCE_PAYLOAD };
        let pay = |row: &Value| -> String { canon(&Value::Array(fields.iter().map(|f| row[*f].clone()).collect())) };
        let first = pay(&rows[0]["row"]);
        st.count("oracle_payload_immutable");
        if rows.len() > 1 {
            st.count("payload_checked_over_several_versions");
        }
        let mut all: Vec<String> = rows.iter().map(|r| pay(&r["row"])).collect();
        if let Some(c) = cur.get(&el) {
            if c["state"] != "purged" {
                all.push(pay(c));
            }
        }
        if all.iter().any(|p| *p != first) {
            report_once(st, "C18/payload/epistemic_payload_differs_between_versions", || {
                json!({"element": el, "payloads": all, "fields": fields, "context": ctx()})
            });
        }
    }
}

// ---------------------------------------------------------------------------------------------

fn hist_case(case: u64, rng: &mut Rng, st: &mut Stats, n_commits: usize, mid_replays: usize) {
    set_case("hist", case);
    let r = vcore::run::block_on(hist_case_async(case, rng, st, n_commits, mid_replays));
    if let Err(e) = r {
        st.inconclusive(format!("C18: harness trouble: {e}"));
    }
}

#[allow(clippy::too_many_arguments)]
async fn replay_one(
    nexus: &CognitiveNexus,
    rec: &Recorded,
    form: &'static str,
    as_of: &str,
    since: &BTreeSet<&'static str>,
    only: Option<&BTreeSet<usize>>,
    // queries already reported as different under another AS OF form at this coordinate
    known_diff: Option<&BTreeSet<usize>>,
    st: &mut Stats,
    ctx: &dyn Fn() -> Value,
) -> Result<BTreeSet<usize>, String> {
    let mut differing = BTreeSet::new();
    for (i, (qu, live)) in rec.qs.iter().enumerate() {
        if only.map(|o| !o.contains(&i)).unwrap_or(false) {
            continue;
        }
        let got = ask(nexus, qu, as_of).await?;
        st.eval();
        st.count(&format!("replayed:{form}"));
        st.count(&format!("replayed_family:{}", qu.family));
        st.set("replayed_query_x_form", vcore::fnv_str(&format!("{}{}{form}", qu.head, qu.tail)));
        for k in since {
            st.count(&format!("replayed_after:{k}"));
        }
        if let (Ok(_), Err(code)) = (live, &got) {
            if code == "UnsupportedCapability" {
                st.count(&format!("replay_refused_as_unsupported:{}", qu.family));
                continue;
            }
        }
        if let (Err(code), Ok(_)) = (live, &got) {
            if code == "InternalError" {
                // the live engine failed internally where the historical engine answers: the two
                // engines disagree, but not about the past - own signature, not a replay diff
                let (qu, got) = (qu.clone(), got.clone());
                report_once(st, &format!("C18/live_engine_internal_error_where_historical_engine_answers/{}", shape_name(&qu)), || {
                    json!({"what": "the query failed with InternalError when its coordinate was the present; the same query AS OF that coordinate answers",
                           "query_live": qu.text(""), "query_replayed": shown(&qu, as_of), "parameters": qu.params,
                           "replayed": got.as_ref().map(|v| clip(&canon(v))).map_err(|e| e.clone()), "context": ctx()})
                });
                continue;
            }
        }
        match compare(live, &got, qu) {
            Cmp::Equal => st.count("replay_equal"),
            Cmp::OrderOnly => {
                st.count(&format!("replay_differs_in_unordered_positions_only:{}", qu.family));
                if let (Ok(a), Ok(b)) = (live, &got) {
                    let mut at = BTreeSet::new();
                    reordered_lists(a, b, "", &mut at);
                    for p in at {
                        st.count(&format!("reordered_list_tolerated:{}:{p}", qu.family));
                    }
                }
            }
            Cmp::FloatRounding => st.count(&format!("replay_differs_in_float_rounding_only:{}", qu.family)),
            Cmp::Different if known_diff.map(|k| k.contains(&i)).unwrap_or(false) => {
                st.count("replay_difference_already_reported_under_AS_OF_SEQ");
            }
            Cmp::Different => {
                differing.insert(i);
                let (qu, live, got) = (qu.clone(), live.clone(), got.clone());
                let since: Vec<&str> = since.iter().copied().collect();
                report_once(st, &format!("C18/replay/{}/{}/{form}", qu.family, shape_name(&qu)), || {
                    json!({"what": "the answer AS OF a past coordinate differs from the answer recorded when that coordinate was current",
                           "query": shown(&qu, as_of), "parameters": qu.params, "recorded_at_seq": rec.seq,
                           "recorded": live.as_ref().map(|v| clip(&canon(v))).map_err(|e| e.clone()),
                           "replayed": got.as_ref().map(|v| clip(&canon(v))).map_err(|e| e.clone()),
                           "row_difference": row_diff(&live, &got),
                           "first_difference_after_normalization": explain_difference(&live, &got, &qu),
                           "mutation_kinds_since": since, "context": ctx()})
                });
            }
        }
    }
    Ok(differing)
}

async fn hist_case_async(case: u64, rng: &mut Rng, st: &mut Stats, n_commits: usize, mid_replays: usize) -> Result<(), String> {
    let disk: Arc<dyn object_store::ObjectStore> = Arc::new(InMemory::new());
    let db_name = format!("c18_{case}");
    let mut nexus = open_nexus(disk.clone(), &db_name).await?;
    activate_profile(&nexus).await?;
    // half of the histories are closed and reopened once: the past must not live in caches
    let reopen_at = if rng.bool() { Some(2 + rng.usize(n_commits.saturating_sub(4).max(1))) } else { None };
    let mut g = Gen { uid: 0, tag: format!("h{case}") };
    let spaced = rng.chance(2, 3); // keep commit timestamps apart (workload shaping only)
    for (v, f) in [("1.0.0", false), ("2.0.0", true)] {
        let pkg = SchemaPackage::parse(&reads_package(v, f)).map_err(|e| format!("reads package: {e:?}"))?;
        nexus.install_package(&pkg, "verif").await.map_err(|e| format!("install reads package: {e:?}"))?;
    }
    let mut env = if rng.bool() { Env::Plain } else { Env::Functional };
    nexus.activate_schema(DEFAULT_SPACE, lock_of(env)).await.map_err(|e| format!("activate_schema: {e:?}"))?;
    let with_schema_events = rng.chance(1, 2);
    let mut core_only_left = 0usize;
    let mut recorded: Vec<Recorded> = vec![];
    let mut history: Vec<Value> = vec![];
    let mut attempts = 0;
    let mut kinds_seen: BTreeSet<&'static str> = BTreeSet::new();
    let mut reopened = false;
    while recorded.len() < n_commits && attempts < n_commits * 3 {
        attempts += 1;
        if reopen_at == Some(recorded.len()) && !reopened {
            reopened = true;
            nexus.close().await.map_err(|e| format!("close: {e:?}"))?;
            nexus = open_nexus(disk.clone(), &db_name).await?;
            st.count("history_reopens");
            history.push(json!({"host": "close + CognitiveNexus::connect on the same object store"}));
        }
        let sc = scan(&nexus).await?;
        let w = world_of(&sc);
        // --- one history step: a KML statement or a schema activation
        let (seq, tx_id, committed_at, kinds): (u64, String, String, Vec<&'static str>);
        let schema_step = with_schema_events && recorded.len() >= 2 && (core_only_left == 1 || (core_only_left == 0 && rng.chance(1, 6)));
        if schema_step {
            let to = match env {
                Env::Core => if rng.bool() { Env::Plain } else { Env::Functional },
                Env::Plain => if rng.chance(2, 3) { Env::Functional } else { Env::Core },
                Env::Functional => if rng.chance(1, 2) { Env::Plain } else { Env::Core },
            };
            let to_core = to == Env::Core;
            nexus.activate_schema(DEFAULT_SPACE, lock_of(to)).await.map_err(|e| format!("activate_schema: {e:?}"))?;
            env = to;
            core_only_left = if to_core { 1 + rng.usize(2) + 1 } else { 0 };
            let sc2 = scan(&nexus).await?;
            let s = space_seq(&sc2);
            let row = sc2["transactions"].values().find(|r| r["seq"].as_u64() == Some(s) && r["space"] == DEFAULT_SPACE)
                .ok_or("activation left no journal row")?.clone();
            seq = s;
            tx_id = row["tx_id"].as_str().unwrap_or("").to_string();
            committed_at = row["committed_at"].as_str().unwrap_or("").to_string();
            kinds = match to {
                Env::Core => vec!["schema_activation_core_only"],
                Env::Plain => vec!["schema_activation_profile", "schema_activation_reads_plain"],
                Env::Functional => vec!["schema_activation_profile", "schema_activation_reads_functional"],
            };
            history.push(json!({"host": "activate_schema", "lock": format!("{to:?}"), "seq": s}));
        } else {
            if core_only_left > 1 {
                core_only_left -= 1;
            }
            let mut stmt = gen_stmt(rng, &mut g, &w, None, &CFG_C18);
            if env != Env::Core && rng.chance(1, 5) {
                if let Some(cmd) = reads_statement(rng, &w) {
                    stmt.cmd = cmd;
                    stmt.kinds = vec![if env == Env::Functional { "reads_claims_functional" } else { "reads_claims_plain" }];
                }
            } else if rng.chance(1, 8) {
                if let Some(cmd) = shelve_statement(rng, &w, &sc) {
                    stmt.cmd = cmd;
                    stmt.kinds = vec!["shelve_connected_element"];
                }
            }
            let out = exec(&Via::System(&nexus), &stmt.cmd).await?;
            history.push(json!({"cmd": stmt.cmd.describe(),
                "outcome": if out.committed() { format!("{}@{}", out.receipt_status, out.space_seq.unwrap_or(0)) } else { format!("refused:{}", out.error_code) }}));
            if !out.committed() {
                st.count("history_statements_refused");
                // a refusal that leaves something behind is C17's finding; it would make this
                // history something other than a sequence of whole commits
                if masked(&scan(&nexus).await?) != masked(&sc) {
                    st.count(&format!("history_abandoned_refused_statement_changed_state(C17):{}", out.error_code));
                    return Ok(());
                }
                continue;
            }
            if out.receipt_status != "committed" {
                st.count("history_statements_no_effect");
            }
            seq = out.space_seq.unwrap();
            tx_id = out.tx_id.clone().unwrap_or_default();
            committed_at = out.committed_at.clone().unwrap_or_default();
            // the kinds that really changed something, from the receipt's change list
            let mut ks: Vec<&'static str> = vec![];
            for (id, op, _) in out.changes() {
                let kind = match (op.as_str(), &id[..1]) {
                    ("create", "C") => "create_concept",
                    ("create", "P") => "create_proposition",
                    ("create", "A") => "create_assertion",
                    ("create", "E") => "create_evidence",
                    ("create", "X") => "create_activity",
                    ("update", "P") => "update_proposition",
                    ("update", _) => "update_concept",
                    ("archive", _) => "archive",
                    ("tombstone", _) => "tombstone",
                    ("retract", _) => "retract",
                    ("supersede", _) => "supersede",
                    ("merge", _) => "merge",
                    ("set_retention", _) => "set_retention",
                    ("transition", _) => "transition",
                    ("correct", _) => "correct_evidence",
                    _ => "other",
                };
                ks.push(kind);
            }
            for k in &stmt.kinds {
                if matches!(*k, "update_again" | "update_sweep" | "upsert_hit" | "assert_sugar" | "reads_claims_functional" | "reads_claims_plain" | "shelve_connected_element") {
                    ks.push(k);
                }
            }
            kinds = ks;
        }
        st.count("history_commits");
        for k in &kinds {
            st.count(&format!("commit_kind:{k}"));
            kinds_seen.insert(k);
        }
        // --- record the battery at this coordinate
        let sc = scan(&nexus).await?;
        if space_seq(&sc) != seq {
            return Err(format!("space counter {} is not the commit sequence {seq}", space_seq(&sc)));
        }
        let all = world_all(&sc);
        let act = world_active(&all);
        let mut qs = vec![];
        for qu in battery(&act, &all, &sc, rng) {
            let a = ask(&nexus, &qu, "").await?;
            st.count("battery_recorded");
            st.count(&format!("recorded_family:{}", qu.family));
            if let Err(code) = &a {
                st.count(&format!("battery_recorded_error_answers:{code}"));
            }
            if qu.head == READS_BELIEF {
                if let Ok(Value::Array(rows)) = &a {
                    let rivals = rows.iter().filter(|r| r[4].as_f64().unwrap_or(0.0) > 0.0).count() as u64;
                    st.add(&format!("recorded_reads_beliefs_opposed_by_a_rival_value:{env:?}"), rivals);
                    st.add(&format!("recorded_reads_beliefs:{env:?}"), rows.len() as u64);
                }
            }
            qs.push((qu, a));
        }
        recorded.push(Recorded { seq, tx_id, committed_at, kinds, qs });
        let hist2 = history.clone();
        let cx = move || json!({"case": case, "history": hist2});
        check_payloads(&sc, st, &cx);
        if spaced {
            std::thread::sleep(std::time::Duration::from_micros(1200));
        }
        // --- replay a few earlier coordinates now (the one just before is the sharpest)
        let n = recorded.len();
        if n >= 2 {
            let mut targets: BTreeSet<usize> = BTreeSet::new();
            targets.insert(n - 2);
            for _ in 0..mid_replays {
                targets.insert(rng.usize(n - 1));
            }
            for i in targets {
                let since: BTreeSet<&'static str> = recorded[i + 1..].iter().flat_map(|r| r.kinds.iter().copied()).collect();
                let rec = &recorded[i];
                st.count("coordinates_replayed_after_a_later_commit");
                // quick tier: a seeded half of the battery here (all of it at the end)
                let sub: Option<BTreeSet<usize>> = if mid_replays == 0 { Some((0..rec.qs.len()).filter(|_| rng.bool()).collect()) } else { None };
                replay_one(&nexus, rec, "SEQ", &format!("AS OF SEQ {}", rec.seq), &since, sub.as_ref(), None, st, &cx).await?;
            }
        }
    }
    // --- the end: every coordinate, every query, every form
    let sc = scan(&nexus).await?;
    let hist2 = history.clone();
    let cx = move || json!({"case": case, "history": hist2});
    let journal: Vec<(u64, String)> = sc["transactions"].values().filter(|r| r["space"] == DEFAULT_SPACE)
        .map(|r| (r["seq"].as_u64().unwrap_or(0), r["committed_at"].as_str().unwrap_or("").to_string())).collect();
    for i in 0..recorded.len() {
        let rec = &recorded[i];
        let since: BTreeSet<&'static str> = recorded[i + 1..].iter().flat_map(|r| r.kinds.iter().copied()).collect();
        st.count("coordinates_replayed_at_the_end");
        let diff = replay_one(&nexus, rec, "SEQ", &format!("AS OF SEQ {}", rec.seq), &since, None, None, st, &cx).await?;
        // TX and TIME resolve to the same coordinate; a seeded third of the battery each
        let sub: BTreeSet<usize> = (0..rec.qs.len()).filter(|_| rng.chance(1, 3)).collect();
        replay_one(&nexus, rec, "TX", &format!("AS OF TX {}", jstr(&rec.tx_id)), &since, Some(&sub), Some(&diff), st, &cx).await?;
        // AS OF TIME names the last commit at or before the instant: usable when no later
        // journal row carries the same (or an earlier) timestamp
        let unique = journal.iter().all(|(s, at)| *s <= rec.seq || at.as_str() > rec.committed_at.as_str())
            && journal.iter().all(|(s, at)| *s >= rec.seq || at.as_str() <= rec.committed_at.as_str());
        if unique && !rec.committed_at.is_empty() {
            let sub: BTreeSet<usize> = (0..rec.qs.len()).filter(|_| rng.chance(1, 3)).collect();
            replay_one(&nexus, rec, "TIME", &format!("AS OF TIME {}", jstr(&rec.committed_at)), &since, Some(&sub), Some(&diff), st, &cx).await?;
        } else {
            st.count("as_of_time_skipped_equal_commit_timestamps");
        }
        // the token SNAPSHOT AS OF SEQ s hands out binds a whole request to s (KQL only)
        match read(&nexus, &format!("SNAPSHOT AS OF SEQ {}", rec.seq)).await {
            Ok(snap) if snap["snapshot_token"].is_string() => {
                let sub: BTreeSet<usize> = (0..rec.qs.len()).filter(|i| rec.qs[*i].0.family != "meta_as_of" && rng.chance(1, 5)).collect();
                let form = format!("{TOKEN_FORM}{}", snap["snapshot_token"].as_str().unwrap_or(""));
                replay_one(&nexus, rec, "TOKEN", &form, &since, Some(&sub), Some(&diff), st, &cx).await?;
            }
            other => report_once(st, "C18/snapshot_as_of_issues_no_token", || json!({"seq": rec.seq, "answer": format!("{other:?}"), "context": cx()})),
        }
    }
    // coordinate 0 is the empty Space, whatever happened later
    for qu in [q("element", "FIND(?c) WHERE { ?c CONCEPT {} }"), q("tuple", "FIND(?p) WHERE { ?p PROPOSITION (?s, ?pr, ?o) }"), q("aggregate", "FIND(COUNT(?a)) WHERE { ?a ASSERTION {} }")] {
        let got = ask(&nexus, &qu, "AS OF SEQ 0").await?;
        st.count("replayed:SEQ0");
        let ok = match &got {
            Ok(v) => v.as_array().map(|a| a.is_empty() || a == &vec![json!(0)]).unwrap_or(false),
            Err(_) => false,
        };
        if !ok {
            report_once(st, "C18/replay/coordinate_zero_not_empty", || json!({"query": qu.text("AS OF SEQ 0"), "answer": format!("{got:?}"), "context": cx()}));
        }
    }
    check_payloads(&sc, st, &cx);
    if recorded.len() >= n_commits / 2 && kinds_seen.len() >= 6 {
        st.distinct(vcore::hash_debug(&history));
    }
    st.max("max_commits_in_a_history", recorded.len() as u64);
    st.sample(|| json!({"monitor": "record/replay", "case": case, "commits": recorded.len(),
        "kinds": kinds_seen, "first_statements": history.iter().take(4).collect::<Vec<_>>()}));
    Ok(())
}

fn main() {
    let mut run = Run::from_args(
        "C18",
        "exploration",
        "seeded histories of committed KML statements (create / update / archive / tombstone / \
         retract / supersede / merge / retention / transition / correction, rival claims on a \
         `reads` slot, shelving of connected elements; half of them closed and reopened once) \
         with schema activations between three environments: core only, bundled \
         profile + test package 1.0.0 (`reads` an ordinary predicate), bundled profile + test \
         package 2.0.0 (`reads` functional); a history is non-trivial when at least half of the \
         planned commits landed and >= 6 mutation kinds occurred (distinct by statement texts)",
    );
    run.assume("DESCRIBE SCHEMA ENVIRONMENT AS OF adds the member snapshot_seq (the coordinate it was asked for); it is dropped before comparing. SNAPSHOT / DESCRIBE SNAPSHOT are compared whole (the live answer at s names s itself)");
    run.assume("an answer is the operation's result payload (plus next_cursor for the paged ORDER BY queries); the rest of the response envelope (context.schema_environment_version, space_id, receipt) names the read coordinate/environment and is excluded; nothing inside a payload is excluded");
    run.assume("the row sequence is compared only for queries with ORDER BY (their sort keys are unique per row); the column order inside a row and every list inside an element view are always compared as they are. For the BELIEF families only, the order of the lists inside a projection object (ledger id lists, slot candidates) and - with the aggregates - the last digits of float sums follow the engine's candidate enumeration order; such differences are counted (replay_differs_in_*, reordered_list_tolerated:*), not asserted. Scalar members of a projection (status, scores to 12 digits, `leading`) are asserted");
    run.assume("BELIEF / BELIEF SLOT / FOR TIME queries pin world time with FOR TIME so that `now` never enters an answer");
    run.assume("AS OF TIME is replayed only for commits whose timestamp differs from every other journal row of the Space (equal timestamps are counted and skipped); SEARCH ... AS OF is documented as unsupported and is not in the battery; PURGE is not generated (the only statement allowed to change the past)");
    run.assume("all reads run as the system Principal (current authorization applies to historical reads by specification)");
    let t = run.tier;
    run.parallel("hist", t.pick(24, 1200), t.pick(0.9, 0.8), |c, rng, st| hist_case(c, rng, st, t.pick(16, 24), t.pick(0, 3)));
    drain_reports(&mut run);
    run.floor("history_commits", 120);
    run.floor("history_reopens", 4);
    run.floor("battery_recorded", 6000);
    run.floor("replayed:SEQ", 10000);
    run.floor("replayed:TX", 1000);
    run.floor("replayed:TIME", 300);
    run.floor("replayed:TOKEN", 300);
    run.floor("coordinates_replayed_after_a_later_commit", 120);
    run.floor("coordinates_replayed_at_the_end", 120);
    run.floor("oracle_payload_immutable", 500);
    run.floor("payload_checked_over_several_versions", 50);
    for f in ["element", "tuple", "structural", "path", "not_optional_union", "filter", "aggregate", "order_limit", "belief", "belief_slot", "for_time", "meta_as_of"] {
        run.floor(&format!("replayed_family:{f}"), 200);
    }
    for k in ["create_concept", "create_proposition", "create_assertion", "update_concept", "update_proposition", "archive", "tombstone", "retract", "supersede", "merge",
              "set_retention", "transition", "correct_evidence", "schema_activation_core_only", "schema_activation_profile",
              "schema_activation_reads_plain", "schema_activation_reads_functional", "reads_claims_functional", "reads_claims_plain",
              "shelve_connected_element"] {
        run.floor(&format!("replayed_after:{k}"), 150);
    }
    run.floor("recorded_reads_beliefs_opposed_by_a_rival_value:Functional", 20);
    run.floor("recorded_reads_beliefs:Plain", 20);
    run.floor_set("replayed_query_x_form", 100);
    run.finish();
}

//! C17 - A KML statement is all-or-nothing and versions each element once.
//!
//! Monitors (DESIGN.md C17):
//! * `seq`: generated KML statement sequences through `parse_kip` + the real executor; after every
//!   statement the full observable state (direct scan of the ten cognitive collections + a fixed
//!   KQL/META battery incl. AS OF reads at every earlier coordinate) is compared with the state
//!   before it: refused / dry-run statements must change nothing (the Space sequence counter may
//!   skip), committed statements must be explained exactly by their receipt (one journal row, one
//!   version bump and one version-log row per named element, nothing else touched).
//! * `hist`: statements that hold a PURGE (the one clause that destroys recorded versions) and do
//!   not commit, for every way of not committing (the refusals of the commit-time write-set
//!   validation, planning refusals on either side of the PURGE, a refused second PURGE, a denied
//!   session, a parser refusal, both dry-run forms); the history is read in depth on both sides
//!   (whole elements of every kind AS OF every coordinate by SEQ / TX / TIME, CHANGES, HISTORY,
//!   version-log and journal rows) and the block without its refusing clause must then erase.
//! * `keys`: a logical key is addressed again (UPSERT typed / untyped / create-only / in another
//!   Space / under another type, CREATE, in-block combinations with tuple clauses, dry runs) after
//!   its holder went through every lifecycle transition (archive, tombstone, merge and merge
//!   chains, quarantine and release, purge, combinations): at most one Concept of a type holds a key
//!   over all states that keep it, an UPSERT on a held key is bound to the holder.
//! * `vis`: readers concurrent with writers on a multi-thread runtime must see all or none of a
//!   statement's elements.
//! * `crash`: RecStore below the engine; every crash prefix must reopen and expose no pending row;
//!   partial commits at a crash are measured (documented: no write-ahead log).

use anda_cognitive_nexus::governance::{
    AuthContext, SYSTEM_PRINCIPAL,
    rows::{AuthorityScope, principal_class},
    store::{GrantDraft, PrincipalDraft},
};
use anda_cognitive_nexus::nexus::{DEFAULT_SPACE, Session};
use anda_cognitive_nexus::{CognitiveNexus, SpaceDraft};
use object_store::memory::InMemory;
use serde_json::Value;
use std::collections::{BTreeMap, BTreeSet};
use std::sync::Arc;
use std::sync::atomic::{AtomicBool, AtomicU64, Ordering};
use v_nexus::nx1718::*;
use vcore::recstore::RecStore;
use vcore::{Rng, Run, Stats, json};

const OTHER_SPACE: &str = "kip:space:other";
/// The generator class (shared with C18, name kept) that ensures / asserts one brand-new tuple
/// twice in one block. It is a positive case: both clauses resolve to one Proposition.
const SAME_TUPLE_TWICE: &str = "tuple_conflict_commit";
const RESTRICTED: &str = "kip:principal:restricted";

// ---------------------------------------------------------------------------------------------
// observation: collections + KQL/META battery

fn sorted_rows(v: Value) -> Value {
    match v {
        Value::Array(mut a) => {
            a.sort_by_key(canon);
            Value::Array(a)
        }
        o => o,
    }
}

fn mask_coordinates(mut v: Value) -> Value {
    if let Some(m) = v.as_object_mut() {
        for k in ["snapshot_seq", "snapshot_token", "seq"] {
            if m.contains_key(k) {
                m.insert(k.to_string(), json!("<masked>"));
            }
        }
    }
    v
}

const STATES: [&str; 7] = ["active", "archived", "tombstoned", "merged", "pending", "purged", "quarantined"];
const KINDS: [&str; 4] = ["CONCEPT", "ASSERTION", "EVIDENCE", "ACTIVITY"];

fn asof_queries(k: u64) -> Vec<String> {
    vec![
        format!("FIND(?c.id, ?c._system.version, ?c._system.state, ?c.name, ?c.attributes) WHERE {{ ?c CONCEPT {{}} }} AS OF SEQ {k}"),
        format!("FIND(?p.id, ?s.id, ?pr, ?p._system.version) WHERE {{ ?p PROPOSITION (?s, ?pr, ?o) }} AS OF SEQ {k}"),
        format!("FIND(?a.id, ?a.lifecycle.status, ?a._system.version) WHERE {{ ?a ASSERTION {{}} }} AS OF SEQ {k}"),
        format!("FIND(COUNT(?e)) WHERE {{ ?e EVIDENCE {{}} }} AS OF SEQ {k}"),
    ]
}

struct Obs {
    scan: Scan,
    rows: BTreeMap<String, String>,
    battery: BTreeMap<String, String>,
    /// coordinate -> query family index -> answer
    asof: BTreeMap<u64, Vec<String>>,
    seq: u64,
    n_queries: u64,
    /// the history read in depth (sections `hist` / `keys`): whole elements of every kind AS OF
    /// every coordinate, AS OF TX / AS OF TIME of every journal row, CHANGES from several points
    deep: BTreeMap<String, String>,
}

async fn run_q(nexus: &CognitiveNexus, q: &str, mask: bool) -> Result<String, String> {
    Ok(match read(nexus, q).await {
        Ok(v) => {
            let v = if mask { mask_coordinates(v) } else { v };
            canon(&sorted_rows(v))
        }
        Err(code) if code.starts_with("HARNESS") => return Err(format!("{code} in {q}")),
        Err(code) => format!("ERR {code}"),
    })
}

async fn observe(nexus: &CognitiveNexus) -> Result<Obs, String> {
    observe_with(nexus, false).await
}

/// What a historical read can say about every element, beyond the four `asof_queries` families:
/// the whole rendered element of every kind at every coordinate, the same through the two other
/// ways of naming a coordinate (transaction id, commit time), the change stream from several
/// starting points. Compared before / after a statement that did not commit.
async fn deep_history(nexus: &CognitiveNexus, scan: &Scan, seq: u64, n: &mut u64) -> Result<BTreeMap<String, String>, String> {
    let mut qs: Vec<String> = vec![];
    for k in 0..=seq {
        for kind in KINDS {
            qs.push(format!("FIND(?x) WHERE {{ ?x {kind} {{}} }} AS OF SEQ {k}"));
        }
        qs.push(format!("FIND(?p, ?s.id, ?o.id) WHERE {{ ?p PROPOSITION (?s, ?pr, ?o) }} AS OF SEQ {k}"));
        if k % 4 == 1 {
            qs.push(format!("CHANGES AFTER SEQ {k} LIMIT 100000"));
        }
    }
    for row in scan["transactions"].values() {
        if row["space"] != DEFAULT_SPACE {
            continue;
        }
        if let Some(tx) = row["tx_id"].as_str() {
            qs.push(format!("FIND(?c.id, ?c._system.version, ?c._system.state, ?c.name) WHERE {{ ?c CONCEPT {{}} }} AS OF TX {}", jstr(tx)));
            qs.push(format!("FIND(?e.id, ?e._system.version) WHERE {{ ?e EVIDENCE {{}} }} AS OF TX {}", jstr(tx)));
        }
        if let Some(at) = row["committed_at"].as_str() {
            qs.push(format!("FIND(?c.id, ?c._system.version, ?c._system.state, ?c.name) WHERE {{ ?c CONCEPT {{}} }} AS OF TIME {}", jstr(at)));
            qs.push(format!("FIND(?x.id, ?x._system.version) WHERE {{ ?x ACTIVITY {{}} }} AS OF TIME {}", jstr(at)));
            qs.push(format!("FIND(?a.id, ?a.lifecycle.status, ?a._system.version) WHERE {{ ?a ASSERTION {{}} }} AS OF TIME {}", jstr(at)));
        }
    }
    let mut out = BTreeMap::new();
    for q in qs {
        if out.contains_key(&q) {
            continue;
        }
        let a = run_q(nexus, &q, false).await?;
        *n += 1;
        out.insert(q, a);
    }
    Ok(out)
}

async fn observe_with(nexus: &CognitiveNexus, deep: bool) -> Result<Obs, String> {
    let scan = scan(nexus).await?;
    let seq = space_seq(&scan);
    let mut battery = BTreeMap::new();
    let mut qs: Vec<(String, bool)> = vec![];
    for k in KINDS {
        for s in STATES {
            qs.push((format!("FIND(?x) WHERE {{ ?x {k} {{state: \"{s}\"}} }}"), false));
        }
        qs.push((format!("FIND(COUNT(?x)) WHERE {{ ?x {k} {{}} }}"), false));
    }
    qs.push(("FIND(?p) WHERE { ?p PROPOSITION (?s, ?pr, ?o) }".into(), false));
    qs.push(("FIND(COUNT(?p)) WHERE { ?p PROPOSITION (?s, ?pr, ?o) }".into(), false));
    qs.push(("FIND(?x.id, ?y.id) WHERE { STRUCTURAL (?x, \"about\", ?y) }".into(), false));
    qs.push(("FIND(?x.id, ?y.id) WHERE { STRUCTURAL (?x, \"mentions\", ?y) }".into(), false));
    qs.push(("FIND(?a.id, ?b.id) WHERE { (?a, \"same_as\"{1,3}, ?b) }".into(), false));
    qs.push((format!("FIND(?p.id, ?b) WHERE {{ ?p PROPOSITION (?s, ?pr, ?o) ?b BELIEF (?p) }} FOR TIME \"{PIN_TIME}\""), false));
    qs.push(("HISTORY SPACE".into(), false));
    qs.push(("CHANGES AFTER SEQ 0 LIMIT 100000".into(), false));
    qs.push(("DESCRIBE SNAPSHOT".into(), true));
    qs.push(("SNAPSHOT".into(), true));
    qs.push(("DESCRIBE SPACE".into(), true));
    qs.push(("LIST SCHEMA PACKAGES".into(), false));
    qs.push(("DESCRIBE SCHEMA ENVIRONMENT".into(), false));
    for id in elements(&scan).keys() {
        qs.push((format!("HISTORY ELEMENT \"{id}\""), false));
    }
    let mut n = 0u64;
    for (q, mask) in qs {
        let a = run_q(nexus, &q, mask).await?;
        n += 1;
        battery.insert(q, a);
    }
    let mut asof = BTreeMap::new();
    for k in 0..=seq {
        if seq > 28 && k + 10 < seq && k % 3 != 0 {
            continue;
        }
        let mut v = vec![];
        for q in asof_queries(k) {
            v.push(run_q(nexus, &q, false).await?);
            n += 1;
        }
        asof.insert(k, v);
    }
    let deep = if deep { deep_history(nexus, &scan, seq, &mut n).await? } else { BTreeMap::new() };
    Ok(Obs { rows: masked(&scan), scan, battery, asof, seq, n_queries: n, deep })
}

// ---------------------------------------------------------------------------------------------
// oracles

fn ctx(case: u64, history: &[Value], stmt: &Stmt, out: &Outcome) -> Value {
    json!({"case": case, "statement": stmt.cmd.describe(), "clause_kinds": stmt.kinds,
           "injected_failure": stmt.fail.map(|(c, p)| format!("{c}@{p}")),
           "dry": stmt.dry, "restricted_session": stmt.restricted,
           "response": {"succeeded": out.succeeded, "error_code": out.error_code,
                        "error_message": clip(&out.error_message), "receipt_status": out.receipt_status,
                        "space_seq": out.space_seq, "result": out.result},
           "history": history})
}

fn is_pending_query(q: &str) -> bool {
    q.contains("{state: \"pending\"}")
}

/// The battery queries about state `pending` whose answer moved.
fn pending_visible(before: &Obs, after: &Obs) -> Vec<String> {
    after
        .battery
        .iter()
        .filter(|(q, a)| is_pending_query(q) && before.battery.get(*q) != Some(*a))
        .map(|(q, _)| q.clone())
        .collect()
}

/// Refused or dry-run statement: nothing observable may differ (the counter may skip).
/// Rows left in state `pending` are reported under their own signature (with whether a query
/// can see them); `collections_changed` / `query_answers_changed` are about everything else.
fn check_unchanged(before: &Obs, after: &Obs, what: &str, code: &str, st: &mut Stats, ctx: &dyn Fn() -> Value) {
    st.count("oracle_obs_equal");
    let class = if code.is_empty() { what.to_string() } else { format!("{what}/{code}") };
    let newp: Vec<String> = pending_ids(&after.scan).difference(&pending_ids(&before.scan)).cloned().collect();
    st.count("oracle_no_pending_left");
    if !newp.is_empty() {
        // The property speaks about what "a query, meta command or historical read can
        // observe". A leftover shell is a violation when a KQL answer shows it (an element
        // pattern that names `state: "pending"` matches shells of every kind but Proposition);
        // a shell that only the direct collection scan sees is counted, not asserted.
        let visible = pending_visible(before, after);
        if visible.is_empty() {
            st.count("pending_rows_left_visible_to_the_direct_scan_only(measured)");
        } else {
            st.count("pending_rows_left_and_visible_to_a_query");
            report_once(st, &format!("C17/{class}/pending_row_left"), || {
                json!({"what": "rows in state `pending` remain after the statement returned and a query shows them", "pending": newp,
                       "queries_that_show_them": visible, "context": ctx()})
            });
        }
    }
    let new_pending_keys: BTreeSet<String> = newp
        .iter()
        .filter_map(|id| coll_of_id(id).map(|(c, n)| format!("{c}/{n}")))
        .collect();
    let mut rows_after = after.rows.clone();
    rows_after.retain(|k, _| !new_pending_keys.contains(k));
    if before.rows != rows_after {
        let d = diff_maps(&before.rows, &rows_after, 12);
        report_once(st, &format!("C17/{class}/collections_changed"), || {
            json!({"what": "a statement that did not commit changed stored rows (beyond leaving pending rows)", "diff": d, "context": ctx()})
        });
    }
    let strip = |m: &BTreeMap<String, String>| -> BTreeMap<String, String> {
        m.iter()
            .filter(|(q, _)| !(is_pending_query(q) && !newp.is_empty()))
            .filter(|(q, _)| !newp.iter().any(|id| **q == format!("HISTORY ELEMENT \"{id}\"")))
            .map(|(q, a)| (q.clone(), a.clone()))
            .collect()
    };
    let (bb, ba) = (strip(&before.battery), strip(&after.battery));
    if bb != ba {
        let d = diff_maps(&bb, &ba, 8);
        report_once(st, &format!("C17/{class}/query_answers_changed"), || {
            json!({"what": "KQL/META answers differ after a statement that did not commit", "diff": d, "context": ctx()})
        });
    }
    for (k, a) in &before.asof {
        st.count("oracle_asof_unchanged");
        if after.asof.get(k).map(|b| b != a).unwrap_or(false) {
            let b = after.asof[k].clone();
            report_once(st, &format!("C17/{class}/past_read_changed"), || {
                json!({"what": "an AS OF read at an earlier coordinate differs", "as_of_seq": k,
                       "before": a.iter().map(|s| clip(s)).collect::<Vec<_>>(),
                       "after": b.iter().map(|s| clip(s)).collect::<Vec<_>>(), "context": ctx()})
            });
            break;
        }
    }
    // the history in depth (sections that read it): every answer recorded before is the answer now
    if !before.deep.is_empty() {
        st.count("oracle_history_in_depth_unchanged");
        let moved: Vec<&String> = before.deep.iter().filter(|(q, a)| after.deep.get(*q).map(|b| b != *a).unwrap_or(true)).map(|(q, _)| q).collect();
        st.add("history_reads_compared", before.deep.len() as u64);
        if !moved.is_empty() {
            report_once(st, &format!("C17/{class}/history_read_changed"), || {
                let q = moved[0];
                json!({"what": "a historical read (whole elements AS OF SEQ / TX / TIME, CHANGES) answers differently after a statement that did not commit",
                       "queries_that_moved": moved.len(), "first": q, "before": clip(&before.deep[q]),
                       "after": after.deep.get(q).map(|s| clip(s)), "context": ctx()})
            });
        }
    }
    // the coordinates the statement burnt read like the one before them
    if after.seq > before.seq {
        if let (Some(a), Some(b)) = (after.asof.get(&before.seq), after.asof.get(&after.seq)) {
            st.count("oracle_burnt_coordinate_reads_as_previous");
            if a != b {
                report_once(st, &format!("C17/{class}/burnt_coordinate_differs"), || {
                    json!({"what": "AS OF the sequence number a non-committing statement consumed differs from AS OF the one before",
                           "previous": before.seq, "burnt": after.seq,
                           "at_previous": a.iter().map(|s| clip(s)).collect::<Vec<_>>(),
                           "at_burnt": b.iter().map(|s| clip(s)).collect::<Vec<_>>(), "context": ctx()})
                });
            }
        }
        st.count("seq_skipped_by_non_commit");
    }
}

/// Committed statement: the difference is exactly what the receipt names.
fn check_commit(before: &Obs, after: &Obs, out: &Outcome, single_clause: bool, max_seq_seen: u64, st: &mut Stats, ctx: &dyn Fn() -> Value) {
    let seq = out.space_seq.unwrap_or(0);
    let tx = out.tx_id.clone().unwrap_or_default();
    let fail = |st: &mut Stats, sig: &str, d: Value| {
        report_once(st, &format!("C17/commit/{sig}"), || json!({"what": d, "context": ctx()}));
    };
    st.count("oracle_receipt_seq_fresh");
    if seq <= max_seq_seen || seq <= before.seq {
        fail(st, "sequence_not_fresh", json!({"receipt_seq": seq, "max_seen_before": max_seq_seen, "space_seq_before": before.seq}));
    }
    if after.seq != seq {
        fail(st, "space_counter_differs_from_receipt", json!({"receipt_seq": seq, "space_seq_after": after.seq}));
    }
    // journal: exactly one new row, for this transaction
    st.count("oracle_one_journal_row");
    let (jb, ja) = (&before.scan["transactions"], &after.scan["transactions"]);
    let new_j: Vec<&Value> = ja.iter().filter(|(id, _)| !jb.contains_key(*id)).map(|(_, r)| r).collect();
    let changed_j = jb.iter().any(|(id, r)| ja.get(id).map(|x| canon(x) != canon(r)).unwrap_or(true));
    if new_j.len() != 1 || changed_j {
        fail(st, "journal_rows", json!({"new_rows": new_j, "older_rows_changed_or_removed": changed_j}));
    } else {
        let j = new_j[0];
        let want_status = if out.receipt_status == "committed" { "committed" } else { "no_effect" };
        let jids: BTreeSet<String> = j["changed_ids"].as_array().map(|a| a.iter().filter_map(|x| x.as_str().map(|s| s.to_string())).collect()).unwrap_or_default();
        let rids: BTreeSet<String> = out.changes().into_iter().map(|c| c.0).collect();
        if j["seq"].as_u64() != Some(seq) || j["tx_id"] != json!(tx) || j["status"] != want_status || jids != rids {
            fail(st, "journal_row_disagrees_with_receipt", json!({"journal": j, "receipt": out.raw["receipt"], "changes": out.result["changes"]}));
        }
    }
    // elements: version delta 0 or 1, 1 exactly for the named ones
    let named: BTreeMap<String, (String, u64)> = out.changes().into_iter().map(|c| (c.0, (c.1, c.2))).collect();
    if named.len() != out.changes().len() {
        fail(st, "change_list_names_an_element_twice", json!(out.result["changes"]));
    }
    let (eb, ea) = (elements(&before.scan), elements(&after.scan));
    let mut ids: BTreeSet<&String> = eb.keys().collect();
    ids.extend(ea.keys());
    for id in ids {
        st.count("oracle_version_delta");
        let vb = eb.get(id).filter(|r| r["state"] != "pending").map(|r| r["version"].as_u64().unwrap_or(0)).unwrap_or(0);
        match ea.get(id) {
            None => {
                if eb.get(id).map(|r| r["state"] != "pending").unwrap_or(false) {
                    fail(st, "element_disappeared", json!({"id": id}));
                }
            }
            Some(ra) => {
                if ra["state"] == "pending" {
                    if !eb.contains_key(id) {
                        // same rule as for a refused statement: asserted when a query shows it
                        let visible = pending_visible(before, after);
                        if visible.is_empty() {
                            st.count("pending_rows_left_visible_to_the_direct_scan_only(measured)");
                        } else {
                            fail(st, "pending_row_left", json!({"id": id, "row": ra, "queries_that_show_them": visible}));
                        }
                    }
                    continue;
                }
                let va = ra["version"].as_u64().unwrap_or(0);
                match named.get(id) {
                    Some((_, v)) => {
                        st.count("oracle_version_delta_named");
                        if va != vb + 1 || *v != va {
                            fail(st, "version_delta_of_named_element_not_one", json!({"id": id, "before": vb, "after": va, "receipt_version": v}));
                        }
                        if ra["seq"].as_u64() != Some(seq) || ra["updated_tx"] != json!(tx) {
                            fail(st, "changed_element_not_stamped_with_this_commit", json!({"id": id, "row_seq": ra["seq"], "row_updated_tx": ra["updated_tx"], "receipt_seq": seq}));
                        }
                        // "raises the version of every element it changed": an element whose
                        // content is what it was (tx.rs: "a no-effect final state changes
                        // nothing") is not a changed element. Change detection is per clause, so
                        // a block may go a -> b -> a; asserted for one-clause statements only.
                        if let Some(rb) = eb.get(id).filter(|r| r["state"] != "pending") {
                            let unstamped = |r: &Value| {
                                let mut r = r.clone();
                                for k in ["version", "seq", "updated_at", "updated_tx", "origin"] {
                                    r[k] = Value::Null;
                                }
                                canon(&r)
                            };
                            if unstamped(rb) == unstamped(ra) {
                                if single_clause {
                                    fail(st, "version_raised_without_a_change", json!({"id": id, "before": rb, "after": ra}));
                                } else {
                                    st.count("named_elements_with_unchanged_content_in_a_multi_clause_block(measured)");
                                }
                            }
                        }
                    }
                    None => {
                        if va != vb || eb.get(id).map(|rb| canon(rb) != canon(ra)).unwrap_or(true) {
                            fail(st, "unnamed_element_changed", json!({"id": id, "before": eb.get(id), "after": ra}));
                        }
                    }
                }
            }
        }
    }
    for id in named.keys() {
        if !ea.contains_key(id) {
            fail(st, "named_element_missing", json!({"id": id}));
        }
    }
    // version log: one new row per named element, equal to the stored row; nothing else moved
    st.count("oracle_version_log_rows");
    let (vb, va) = (&before.scan["element_versions"], &after.scan["element_versions"]);
    // a committed PURGE destroys the recorded versions of the elements it names with op `purge`
    // (governance/purge.rs: "every historical version of it in the version log"); of nothing else
    let purged: BTreeSet<String> = out.changes().into_iter().filter(|c| c.1 == "purge").map(|c| c.0).collect();
    let moved: Vec<String> = vb
        .iter()
        .filter(|(id, r)| va.get(*id).map(|x| canon(x) != canon(r)).unwrap_or(true))
        .map(|(_, r)| r["element"].as_str().unwrap_or("").to_string())
        .collect();
    if moved.iter().any(|el| !purged.contains(el)) {
        fail(st, "older_version_rows_changed_or_removed", json!({"elements": moved, "purged_by_this_statement": purged}));
    }
    if !purged.is_empty() {
        st.add("elements_purged_by_committed_statements", purged.len() as u64);
        if vb.iter().any(|(id, r)| va.contains_key(id) && purged.contains(r["element"].as_str().unwrap_or(""))) {
            st.count("purged_elements_with_older_version_rows_left(measured)");
        }
    }
    let mut per: BTreeMap<String, Vec<&Value>> = BTreeMap::new();
    for (id, r) in va {
        if !vb.contains_key(id) {
            per.entry(r["element"].as_str().unwrap_or("").to_string()).or_default().push(r);
        }
    }
    for (el, rows) in &per {
        if !named.contains_key(el) || rows.len() != 1 {
            fail(st, "version_log_rows_not_one_per_changed_element", json!({"element": el, "new_rows": rows.len(), "named": named.contains_key(el)}));
        }
    }
    for (el, (_, v)) in &named {
        match per.get(el).and_then(|r| r.first()) {
            None => fail(st, "changed_element_without_version_row", json!({"element": el})),
            Some(r) => {
                let cur = ea.get(el).map(|x| canon(x)).unwrap_or_default();
                if r["version"].as_u64() != Some(*v) || r["seq"].as_u64() != Some(seq) || r["tx_id"] != json!(tx) || canon(&r["row"]) != cur {
                    fail(st, "version_row_disagrees_with_stored_row", json!({"element": el, "version_row": r, "stored": ea.get(el)}));
                }
            }
        }
    }
    // the other collections
    for c in ["schema_packages", "schema_envs"] {
        if before.scan[c] != after.scan[c] {
            fail(st, "schema_collection_changed_by_kml", json!({"collection": c}));
        }
    }
    let strip = |m: &BTreeMap<u64, Value>| -> Vec<String> {
        m.values().map(|r| { let mut r = r.clone(); r["seq"] = json!(0); canon(&r) }).collect()
    };
    if strip(&before.scan["spaces"]) != strip(&after.scan["spaces"]) {
        fail(st, "space_row_changed_beyond_counter", json!(null));
    }
    // earlier coordinates keep answering the same
    for (k, a) in &before.asof {
        if after.asof.get(k).map(|b| b != a).unwrap_or(false) {
            st.count("commit_changed_past_read(C18 territory, counted)");
        }
    }
}

/// Identity: one element per proposition tuple, one concept per (type, key).
fn check_identity(after: &Obs, st: &mut Stats, ctx: &dyn Fn() -> Value) {
    st.count("oracle_identity_scan");
    let mut tuples: BTreeMap<(String, String, String, String), Vec<u64>> = BTreeMap::new();
    for (id, r) in &after.scan["propositions"] {
        // a purged Proposition is an identity stub that carries nothing of the tuple it was
        // (governance/purge.rs `stub`: every column empty, a per-element placeholder as tuple key)
        if r["state"] == "pending" || r["state"] == "purged" {
            continue;
        }
        let s = |k: &str| r[k].as_str().unwrap_or("").to_string();
        tuples.entry((s("space"), s("subject_key"), s("predicate_ref"), s("object_key"))).or_default().push(*id);
    }
    for (t, ids) in tuples {
        if ids.len() > 1 {
            report_once(st, "C17/identity/two_propositions_share_a_tuple", || json!({"tuple": format!("{t:?}"), "ids": ids, "context": ctx()}));
        }
    }
    let mut keys: BTreeMap<(String, String, String), Vec<u64>> = BTreeMap::new();
    for (id, r) in &after.scan["concepts"] {
        let s = |k: &str| r[k].as_str().unwrap_or("").to_string();
        if r["state"] == "pending" || s("key").is_empty() {
            continue;
        }
        keys.entry((s("space"), s("schema_ref"), s("key"))).or_default().push(*id);
    }
    for (k, ids) in keys {
        if ids.len() > 1 {
            report_once(st, "C17/identity/two_concepts_share_a_key", || json!({"key": format!("{k:?}"), "ids": ids, "context": ctx()}));
        }
    }
}

/// One `ENSURE PROPOSITION ?h (s, "p", o)` / `ASSERT ?h (s, "p", o) {..}` clause of a generated
/// statement: (is_assert, handle, subject term, predicate, object term), terms as written.
fn tuples_named(text: &str) -> Vec<(bool, String, String, String, String)> {
    let mut out = vec![];
    for line in text.lines() {
        let line = line.trim();
        let (is_assert, rest) = if let Some(r) = line.strip_prefix("ENSURE PROPOSITION ") {
            (false, r)
        } else if let Some(r) = line.strip_prefix("ASSERT ") {
            (true, r)
        } else {
            continue;
        };
        let (Some(open), Some(close)) = (rest.find('('), rest.find(')')) else { continue };
        let handle = rest[..open].trim().trim_start_matches('?').to_string();
        let parts: Vec<&str> = rest[open + 1..close].split(", ").collect();
        if parts.len() != 3 {
            continue;
        }
        out.push((is_assert, handle, parts[0].to_string(), parts[1].trim_matches('"').to_string(), parts[2].to_string()));
    }
    out
}

/// A term as written -> what it denotes: a parameter's value, or the handle itself (resolved
/// through the response's handle map when there is one).
fn denote(term: &str, cmd: &Cmd, handles: Option<&Value>) -> String {
    if let Some(p) = term.strip_prefix(':') {
        return cmd.params.get(p).and_then(|v| v.as_str()).unwrap_or(term).to_string();
    }
    if let (Some(h), Some(map)) = (term.strip_prefix('?'), handles) {
        if let Some(id) = map.get(h).and_then(|v| v.as_str()) {
            return id.to_string();
        }
    }
    term.to_string()
}

/// "The same proposition tuple always resolves to one element": every clause of a committed
/// statement that names a tuple - ENSURE or the ASSERT sugar, new tuple or existing - is bound to
/// one Proposition per tuple, that Proposition carries exactly this tuple, and when the tuple
/// existed before the statement it is the element that already was there.
fn check_tuple_resolution(before: &Obs, after: &Obs, stmt: &Stmt, out: &Outcome, st: &mut Stats, ctx: &dyn Fn() -> Value) {
    let named = tuples_named(&stmt.cmd.text);
    if named.is_empty() {
        return;
    }
    let handles = out.result.get("handles");
    let ea = elements(&after.scan);
    let eb = elements(&before.scan);
    // a write that names a merged-away Concept is canonicalized to the survivor (documented,
    // Spec 11.3 / clauses.rs canonicalize): the `merged_into` chain as it stood before the
    // statement, because ENSURE is planned ahead of a MERGE of the same block
    let canonical = |id: String| -> String {
        let mut cur = id;
        for _ in 0..64 {
            match eb.get(&cur).and_then(|r| r["merged_into"].as_str()).filter(|m| !m.is_empty()) {
                Some(next) => cur = next.to_string(),
                None => break,
            }
        }
        cur
    };
    let mut groups: BTreeMap<(String, String, String), BTreeSet<String>> = BTreeMap::new();
    let mut namings: BTreeMap<(String, String, String), usize> = BTreeMap::new();
    for (is_assert, h, s, p, o) in &named {
        let (s, o) = (denote(s, &stmt.cmd, handles), denote(o, &stmt.cmd, handles));
        if !s.starts_with("C-") || !o.starts_with("C-") {
            st.count("tuple_namings_skipped(non-concept endpoint)");
            continue;
        }
        let (s0, o0) = (s.clone(), o.clone());
        let (s, o) = (canonical(s), canonical(o));
        if s != s0 || o != o0 {
            st.count("tuple_namings_through_a_merged_concept");
        }
        let Some(hid) = handles.and_then(|m| m.get(h)).and_then(|v| v.as_str()) else {
            report_once(st, "C17/identity/tuple_clause_bound_no_handle", || json!({"handle": h, "context": ctx()}));
            continue;
        };
        let pid = if *is_assert {
            ea.get(hid).map(|r| r["proposition_id"].as_str().unwrap_or("").to_string()).unwrap_or_default()
        } else {
            hid.to_string()
        };
        let key = (s.clone(), p.clone(), o.clone());
        groups.entry(key.clone()).or_default().insert(pid.clone());
        *namings.entry(key).or_default() += 1;
        st.count("oracle_tuple_clause_resolves_to_its_tuple");
        let row_ok = ea.get(&pid).map(|r| {
            r["state"] != "pending" && r["subject"]["id"] == json!(s) && r["object"]["id"] == json!(o) && local_name(r["predicate_ref"].as_str().unwrap_or("")) == *p
        });
        if row_ok != Some(true) {
            report_once(st, "C17/identity/tuple_clause_resolved_to_another_tuple", || {
                json!({"what": "the Proposition a clause was bound to does not carry the tuple the clause names",
                       "clause_handle": h, "named": [s, p, o], "bound": pid, "row": ea.get(&pid), "context": ctx()})
            });
        }
        // the tuple existed before: it is that element
        let prior: Vec<&String> = eb
            .iter()
            .filter(|(id, r)| id.starts_with("P-") && r["state"] != "pending" && r["space"] == DEFAULT_SPACE)
            .filter(|(_, r)| r["subject"]["id"] == json!(s) && r["object"]["id"] == json!(o) && local_name(r["predicate_ref"].as_str().unwrap_or("")) == *p)
            .map(|(id, _)| id)
            .collect();
        if let Some(known) = prior.first() {
            st.count("oracle_existing_tuple_resolves_to_the_existing_element");
            if **known != pid {
                report_once(st, "C17/identity/existing_tuple_resolved_to_a_second_element", || {
                    json!({"named": [s, p, o], "existing": known, "bound": pid, "context": ctx()})
                });
            }
        }
    }
    for (key, ids) in &groups {
        if namings[key] >= 2 {
            st.count("oracle_same_tuple_twice_in_one_block_resolves_to_one");
            if ids.len() != 1 {
                report_once(st, "C17/identity/same_tuple_twice_in_one_block_resolved_to_two_elements", || {
                    json!({"tuple": key, "elements": ids, "context": ctx()})
                });
            }
        }
    }
}

/// One `UPSERT CONCEPT ?h { MATCH {type: "T", key: "K"} .. }` clause of a statement as written:
/// (handle, declared type, key); selectors by `id` are skipped. Values are JSON string literals or
/// parameters.
fn upserts_named(cmd: &Cmd) -> Vec<(String, Option<String>, String)> {
    let mut out = vec![];
    let text = &cmd.text;
    let mut from = 0;
    while let Some(at) = text[from..].find("UPSERT CONCEPT ?") {
        let start = from + at + "UPSERT CONCEPT ?".len();
        from = start;
        let handle: String = text[start..].chars().take_while(|c| c.is_alphanumeric() || *c == '_').collect();
        let Some(m) = text[start..].find("MATCH {") else { continue };
        let inner_from = start + m + "MATCH {".len();
        let Some(close) = text[inner_from..].find('}') else { continue };
        let inner = &text[inner_from..inner_from + close];
        let value = |name: &str| -> Option<String> {
            let at = inner.find(&format!("{name}: "))?;
            let rest = inner[at + name.len() + 2..].trim_start();
            if let Some(p) = rest.strip_prefix(':') {
                let pname: String = p.chars().take_while(|c| c.is_alphanumeric() || *c == '_').collect();
                return cmd.params.get(&pname).and_then(|v| v.as_str()).map(|s| s.to_string());
            }
            let mut de = serde_json::Deserializer::from_str(rest).into_iter::<String>();
            de.next().and_then(|r| r.ok())
        };
        if let Some(key) = value("key") {
            out.push((handle, value("type"), key));
        }
    }
    out
}

/// "A logical key identifies at most one concept of a type", read at the clause that addresses a
/// Concept by its key: the element a committed `UPSERT CONCEPT .. MATCH {type, key}` is bound to
/// carries that key (in the Space of the request, under the declared type), and when a Concept
/// held the key before the statement - in whatever engine state: archived, tombstoned, merged and
/// quarantined Concepts keep their row, id, key and every reference to them - it is that Concept.
fn check_upsert_binding(before: &Obs, after: &Obs, stmt: &Stmt, out: &Outcome, st: &mut Stats, ctx: &dyn Fn() -> Value) {
    let named = upserts_named(&stmt.cmd);
    if named.is_empty() {
        return;
    }
    let space = stmt.cmd.space.clone().unwrap_or_else(|| DEFAULT_SPACE.to_string());
    let purged: BTreeSet<String> = out.changes().into_iter().filter(|c| c.1 == "purge").map(|c| c.0).collect();
    let (eb, ea) = (elements(&before.scan), elements(&after.scan));
    for (h, typ, key) in named {
        if key.is_empty() {
            continue;
        }
        let Some(bound) = out.handle(&h) else {
            st.count("upsert_clauses_without_a_bound_handle(measured)");
            continue;
        };
        if purged.contains(&bound) {
            continue;
        }
        let holds = |r: &Value| {
            r["state"] != "pending"
                && r["space"] == json!(space)
                && r["key"] == json!(key)
                && typ.as_ref().map(|t| local_name(r["schema_ref"].as_str().unwrap_or("")) == *t).unwrap_or(true)
        };
        st.count("oracle_upsert_binds_a_holder_of_its_key");
        if ea.get(&bound).map(|r| holds(r)) != Some(true) {
            report_once(st, "C17/identity/upsert_bound_an_element_that_does_not_hold_the_key", || {
                json!({"what": "the element a committed UPSERT .. MATCH {type, key} is bound to does not carry that key under that type in the Space of the request",
                       "handle": h, "space": space, "type": typ, "key": key, "bound": bound, "row": ea.get(&bound), "context": ctx()})
            });
        }
        let holders: Vec<(&String, &&Value)> = eb.iter().filter(|(id, r)| id.starts_with("C-") && holds(r)).collect();
        if let Some((hid, hrow)) = holders.first() {
            st.count("oracle_upsert_on_a_held_key_resolves_to_the_holder");
            st.count(&format!("upsert_on_a_key_whose_holder_is:{}", hrow["state"].as_str().unwrap_or("?")));
            if !holders.iter().any(|(id, _)| **id == bound) {
                report_once(st, "C17/identity/upsert_minted_a_second_concept_under_a_held_key", || {
                    json!({"what": "a Concept already held (type, key) when the statement ran, and the UPSERT addressing that key was bound to another element",
                           "space": space, "type": typ, "key": key, "holder": hid, "holder_state": hrow["state"], "bound": bound, "context": ctx()})
                });
            }
        }
    }
}

/// Whether a statement names one tuple in two clauses (terms compared as written, parameters by
/// value): such a statement must not be refused for colliding with itself.
fn names_a_tuple_twice(stmt: &Stmt) -> bool {
    let mut seen = BTreeSet::new();
    tuples_named(&stmt.cmd.text)
        .into_iter()
        .any(|(_, _, s, p, o)| !seen.insert((denote(&s, &stmt.cmd, None), p, denote(&o, &stmt.cmd, None))))
}

/// The per-statement verdict shared by the sections that play statements one after the other:
/// which oracle applies follows from how the statement ended (parser refusal, dry run, commit,
/// refusal), the identity scan runs after every one of them.
struct Judge {
    case: u64,
    history: Vec<Value>,
    max_seq: u64,
    n_commit: u64,
    n_refused: u64,
    codes: BTreeSet<String>,
}

impl Judge {
    fn new(case: u64, seq: u64) -> Judge {
        Judge { case, history: vec![], max_seq: seq, n_commit: 0, n_refused: 0, codes: BTreeSet::new() }
    }

    fn judge(&mut self, st: &mut Stats, before: &Obs, after: &Obs, stmt: &Stmt, out: &Outcome) {
        let case = self.case;
        st.eval();
        st.add("battery_queries", after.n_queries);
        st.set("statement_shapes", vcore::fnv_str(&format!("{:?}{:?}{}", stmt.kinds, stmt.fail, stmt.dry)));
        for k in &stmt.kinds {
            st.count(&format!("clause:{k}"));
        }
        if stmt.kinds.len() > 1 {
            st.count("multi_clause_statements");
        }
        if stmt.retry_of_previous {
            st.count("retries_of_identical_request");
        }
        if stmt.cmd.idempotency_key.is_some() {
            st.count("statements_with_idempotency_key");
        }
        let h2 = self.history.clone();
        let (s2, o2) = (stmt.clone(), out.clone());
        let cx = move || ctx(case, &h2, &s2, &o2);
        if out.parse_error.is_some() {
            st.count("stmt_refused_by_parser");
            check_unchanged(before, after, "parser_refused", "", st, &cx);
        } else if stmt.dry != "none" {
            // PREVIEW KML answers `succeeded` with would_commit=false when the plan refuses
            let inner_ok = if stmt.dry == "preview" { out.result["would_commit"] == json!(true) } else { out.succeeded };
            st.count(&format!("dry_run:{}:{}", stmt.dry, if inner_ok { "would_commit" } else { "refused" }));
            if out.space_seq.is_some() || out.result["receipt"]["space_seq"].is_u64() {
                report_once(st, "C17/dry_run/reports_a_commit_sequence", &cx);
            }
            check_unchanged(before, after, "dry_run", "", st, &cx);
        } else if out.committed() {
            if out.receipt_status == "committed" {
                st.count("stmt_committed");
                self.n_commit += 1;
            } else {
                st.count("stmt_committed_no_effect");
            }
            check_commit(before, after, out, stmt.kinds.len() == 1, self.max_seq, st, &cx);
            check_tuple_resolution(before, after, stmt, out, st, &cx);
            check_upsert_binding(before, after, stmt, out, st, &cx);
            self.max_seq = self.max_seq.max(out.space_seq.unwrap_or(0));
        } else if out.succeeded {
            report_once(st, "C17/succeeded_without_commit_sequence", &cx);
        } else {
            st.count("stmt_refused");
            st.count(&format!("refused:{}", out.error_code));
            self.codes.insert(out.error_code.clone());
            self.n_refused += 1;
            if let Some((class, pos)) = stmt.fail {
                st.count(&format!("refused_class:{class}"));
                st.count(&format!("refused_position:{pos}"));
                st.set("refusal_class_x_position", vcore::fnv_str(&format!("{class}@{pos}")));
            }
            // two clauses of one block naming one tuple resolve to one element; they do not
            // collide with each other on the tuple's identity
            // (nor with the element that already is that tuple: writers are exclusive, so there is
            // no race that could make a tuple-identity conflict a legitimate answer)
            if out.error_code == "IdentityConflict" && out.error_message.contains("tuple") {
                if names_a_tuple_twice(stmt) {
                    report_once(st, "C17/identity/same_tuple_twice_in_one_block_collides", || {
                        json!({"what": "a statement naming one proposition tuple in two clauses was refused for an identity conflict with itself", "context": cx()})
                    });
                } else {
                    report_once(st, "C17/identity/tuple_clause_collides_instead_of_resolving", || {
                        json!({"what": "a statement naming a proposition tuple was refused for a tuple-identity conflict instead of resolving to the one element of that tuple", "context": cx()})
                    });
                }
            }
            check_unchanged(before, after, "refused", &out.error_code, st, &cx);
        }
        if let (Some((class, _)), true) = (stmt.fail, out.succeeded && stmt.dry == "none") {
            // `same_tuple_twice` is not a failure class: it must commit (see check_tuple_resolution)
            if class != SAME_TUPLE_TWICE {
                st.count(&format!("injected_failure_did_not_refuse:{class}"));
            }
        }
        check_identity(after, st, &cx);
        self.max_seq = self.max_seq.max(after.seq);
        self.history.push(json!({"cmd": stmt.cmd.describe(), "restricted": stmt.restricted,
            "outcome": if out.committed() { format!("{}@{}", out.receipt_status, out.space_seq.unwrap_or(0)) }
                       else if out.succeeded { "dry".to_string() } else { format!("refused:{}", out.error_code) }}));
        if self.history.len() > 40 {
            self.history.remove(0);
        }
    }
}

// ---------------------------------------------------------------------------------------------
// monitor 1: statement sequences

struct Fixture {
    nexus: CognitiveNexus,
    restricted: Session,
}

async fn fixture(store: Arc<dyn object_store::ObjectStore>, name: &str, with_other_space: bool) -> Result<Fixture, String> {
    let nexus = open_nexus(store, name).await?;
    activate_profile(&nexus).await?;
    let gov = nexus.governance();
    gov.ensure_principal(PrincipalDraft {
        principal_id: RESTRICTED.into(),
        principal_class: principal_class::AGENT.to_string(),
        display_name: "restricted".into(),
        auth_provider: "verif".into(),
        auth_subject: "restricted".into(),
    })
    .await
    .map_err(|e| format!("{e:?}"))?;
    gov.create_grant(
        GrantDraft {
            space_id: DEFAULT_SPACE.into(),
            grantee_principal: RESTRICTED.into(),
            actions: vec!["read".into(), "create".into(), "update".into()],
            scope: AuthorityScope { kinds: vec!["concept".into()], ..Default::default() },
            ..Default::default()
        },
        SYSTEM_PRINCIPAL,
    )
    .await
    .map_err(|e| format!("{e:?}"))?;
    if with_other_space {
        nexus
            .store
            .open_or_create_space(SpaceDraft {
                space_id: OTHER_SPACE.into(),
                name: "other".into(),
                owner_principal: SYSTEM_PRINCIPAL.into(),
                ..Default::default()
            })
            .await
            .map_err(|e| format!("{e:?}"))?;
        nexus.activate_schema(OTHER_SPACE, profile_lock()).await.map_err(|e| format!("{e:?}"))?;
        let mut c = Cmd::new("CREATE CONCEPT ?f { TYPE \"Person\" NAME \"foreigner\" }");
        c.space = Some(OTHER_SPACE.into());
        let o = exec(&Via::System(&nexus), &c).await?;
        if !o.committed() {
            return Err(format!("seeding the other space failed: {} {}", o.error_code, o.error_message));
        }
    }
    let restricted = nexus.session(AuthContext::principal(RESTRICTED));
    Ok(Fixture { nexus, restricted })
}

fn seq_case(case: u64, rng: &mut Rng, st: &mut Stats, n_stmts: usize) {
    set_case("seq", case);
    let r = vcore::run::block_on(seq_case_async(case, rng, st, n_stmts));
    if let Err(e) = r {
        st.inconclusive(format!("C17 seq: harness trouble: {e}"));
    }
}

async fn seq_case_async(case: u64, rng: &mut Rng, st: &mut Stats, n_stmts: usize) -> Result<(), String> {
    let fx = fixture(Arc::new(InMemory::new()), &format!("c17_{case}"), true).await?;
    let mut g = Gen { uid: 0, tag: format!("c{case}") };
    let mut before = observe(&fx.nexus).await?;
    let mut prev: Option<Stmt> = None;
    let mut j = Judge::new(case, before.seq);
    // one case in four plays a scripted merge chain in the middle of its generated statements:
    // a -> b, b -> c, then tuple clauses that name the Concept TWO hops from its survivor; they
    // must resolve to the Proposition that already exists about the survivor
    let mut script_stage = if case % 4 == 1 { 0usize } else { 99 };
    let mut sid: BTreeMap<String, String> = BTreeMap::new();
    for step_no in 0..n_stmts {
        let w = world_of(&before.scan);
        let plain = |text: String, kinds: Vec<&'static str>, params: Vec<(&str, String)>| {
            let mut cmd = Cmd::new(text);
            for (k, v) in params {
                cmd = cmd.param(k, json!(v));
            }
            Stmt { cmd, kinds, fail: None, dry: "none", restricted: false, retry_of_previous: false }
        };
        let scripted = script_stage < 6 && step_no >= 2;
        let stmt = if scripted {
            script_stage += 1;
            let t = format!("mc{case}");
            let id = |k: &str| sid.get(k).cloned().unwrap_or_default();
            match script_stage {
                1 => plain(
                    format!("MUTATE {{ CREATE CONCEPT ?ma {{ TYPE \"Person\" NAME \"{t}a\" }} CREATE CONCEPT ?mb {{ TYPE \"Person\" NAME \"{t}b\" }} CREATE CONCEPT ?mc {{ TYPE \"Person\" NAME \"{t}c\" }} CREATE CONCEPT ?mo {{ TYPE \"Preference\" NAME \"{t}o\" SET ATTRIBUTES {{strength: 0.5}} }} }}"),
                    vec!["create_concept", "create_concept", "create_concept", "create_concept"],
                    vec![],
                ),
                2 => plain("ENSURE PROPOSITION ?mq1 (:s, \"prefers\", :o)".into(), vec!["ensure"], vec![("s", id("mc")), ("o", id("mo"))]),
                3 => plain(format!("MERGE CONCEPT {} INTO {}", jstr(&id("ma")), jstr(&id("mb"))), vec!["merge"], vec![]),
                4 => plain(format!("MERGE CONCEPT {} INTO {}", jstr(&id("mb")), jstr(&id("mc"))), vec!["merge"], vec![]),
                5 => plain("ENSURE PROPOSITION ?mq2 (:s, \"prefers\", :o)".into(), vec!["ensure_hit"], vec![("s", id("ma")), ("o", id("mo"))]),
                _ => plain(
                    "MUTATE { ENSURE PROPOSITION ?mq3 (:s1, \"prefers\", :o) ASSERT ?mx (:s2, \"prefers\", :o) { by: :s2, mode: \"stated\", confidence: 0.6 } }".into(),
                    vec!["ensure_hit", "assert_sugar"],
                    vec![("s1", id("mb")), ("s2", id("ma")), ("o", id("mo"))],
                ),
            }
        } else {
            gen_stmt(rng, &mut g, &w, prev.as_ref(), &CFG_C17)
        };
        let via = if stmt.restricted { Via::Session(&fx.restricted) } else { Via::System(&fx.nexus) };
        let out = exec(&via, &stmt.cmd).await?;
        if scripted {
            st.count("scripted_merge_chain_statements");
            if script_stage == 1 {
                for h in ["ma", "mb", "mc", "mo"] {
                    if let Some(v) = out.result["handles"][h].as_str() {
                        sid.insert(h.to_string(), v.to_string());
                    }
                }
                if sid.len() != 4 {
                    script_stage = 99; // the profile refused the creation: no script in this case
                }
            } else if !out.committed() {
                st.count(&format!("scripted_merge_chain_stage_{script_stage}_not_committed:{}", out.error_code));
                script_stage = 99;
            } else if script_stage >= 5 {
                st.count("scripted_tuple_clause_through_a_two_hop_merge_chain");
            }
        }
        let after = observe(&fx.nexus).await?;
        j.judge(st, &before, &after, &stmt, &out);
        prev = Some(stmt);
        before = after;
    }
    if j.n_commit >= 3 && j.n_refused >= 3 && j.codes.len() >= 2 {
        st.distinct(vcore::hash_debug(&j.history));
    }
    st.sample(|| json!({"monitor": "seq", "case": case, "statements": j.history.iter().take(6).collect::<Vec<_>>()}));
    Ok(())
}

// ---------------------------------------------------------------------------------------------
// monitors 1c / 1d share this: one statement played against the fixture, observed and judged

const CFG_COMMITS_ONLY: GenCfg = GenCfg { fail_pct: 0, dry_pct: 0, restricted: false, retries: false, no_effect: false, commit_time_failures: false };

fn plain_stmt(text: String, kinds: Vec<&'static str>, params: Vec<(&str, String)>) -> Stmt {
    let mut cmd = Cmd::new(text);
    for (k, v) in params {
        cmd = cmd.param(k, json!(v));
    }
    Stmt { cmd, kinds, fail: None, dry: "none", restricted: false, retry_of_previous: false }
}

fn block_of(clauses: &[(&'static str, String)]) -> String {
    format!("MUTATE {{\n  {}\n}}", clauses.iter().map(|c| c.1.as_str()).collect::<Vec<_>>().join("\n  "))
}

/// Executes `stmt` (through `session` when given, else as the system), observes and judges it.
/// `deep`: the history is read in depth on both sides of the statement.
async fn play(nexus: &CognitiveNexus, session: Option<&Session>, j: &mut Judge, st: &mut Stats, before: &mut Obs, stmt: &Stmt, deep: bool) -> Result<Outcome, String> {
    if deep && before.deep.is_empty() {
        let mut n = 0;
        before.deep = deep_history(nexus, &before.scan, before.seq, &mut n).await?;
        st.add("battery_queries", n);
    }
    let via = match session {
        Some(s) => Via::Session(s),
        None => Via::System(nexus),
    };
    let out = exec(&via, &stmt.cmd).await?;
    let after = observe_with(nexus, deep).await?;
    j.judge(st, before, &after, stmt, &out);
    *before = after;
    Ok(out)
}

// ---------------------------------------------------------------------------------------------
// monitor 1c: statements that hold a PURGE - the one clause that destroys recorded history - and
// do not commit, for every way the engine has of not committing: the four refusals found by the
// commit-time validation of the write set, planning refusals in front of and behind the PURGE
// clause, a second PURGE that is refused, a session that may purge but not do the rest, a text the
// parser refuses, the two dry-run forms. The observation reads the history in depth (whole
// elements of every kind AS OF every coordinate by SEQ, by TX, by TIME; the change stream; HISTORY
// of every element; the version-log and journal rows themselves). Right after the refused
// statement the same block WITHOUT the refusing clause is executed: it has to commit and erase,
// which shows that the PURGE of the refused statement had passed planning.

const ERASER: &str = "kip:principal:eraser";

const HIST_REFUSALS: [&str; 18] = [
    "commit:key_held",
    "commit:key_twice_in_block",
    "commit:key_create_and_upsert_miss",
    "commit:cross_space_reference",
    "plan:missing_id",
    "plan:expect_version",
    "plan:expect_state",
    "plan:unknown_type",
    "plan:unbound_param",
    "plan:immutable_field",
    "plan:constraint",
    "plan:legal_hold_on_second_purge",
    "plan:second_purge_denied_by_references",
    "plan:unknown_reference_policy",
    "plan:authorization",
    "parser:purge_without_confirm",
    "dry:option",
    "dry:preview",
];

const PURGE_SHAPES: [&str; 9] = [
    "concept_by_literal",
    "concept_by_parameter",
    "concept_by_selection",
    "evidence",
    "activity",
    "assertion",
    "proposition",
    "referenced_concept_keeping_the_stub",
    "referenced_concept_with_cascade",
];

fn hist_case(case: u64, rng: &mut Rng, st: &mut Stats, rounds: usize) {
    set_case("hist", case);
    let r = vcore::run::block_on(hist_case_async(case, rng, st, rounds));
    if let Err(e) = r {
        st.inconclusive(format!("C17 hist: harness trouble: {e}"));
    }
}

async fn hist_case_async(case: u64, rng: &mut Rng, st: &mut Stats, rounds: usize) -> Result<(), String> {
    let fx = fixture(Arc::new(InMemory::new()), &format!("c17h_{case}"), true).await?;
    let gov = fx.nexus.governance();
    gov.ensure_principal(PrincipalDraft {
        principal_id: ERASER.into(),
        principal_class: principal_class::AGENT.to_string(),
        display_name: "eraser".into(),
        auth_provider: "verif".into(),
        auth_subject: "eraser".into(),
    })
    .await
    .map_err(|e| format!("{e:?}"))?;
    gov.create_grant(
        GrantDraft {
            space_id: DEFAULT_SPACE.into(),
            grantee_principal: ERASER.into(),
            actions: vec!["read".into(), "create".into(), "update".into(), "purge".into()],
            scope: AuthorityScope { kinds: vec!["concept".into()], ..Default::default() },
            ..Default::default()
        },
        SYSTEM_PRINCIPAL,
    )
    .await
    .map_err(|e| format!("{e:?}"))?;
    let eraser = fx.nexus.session(AuthContext::principal(ERASER));
    let nexus = &fx.nexus;
    let t = format!("h{case}");
    let mut g = Gen { uid: 0, tag: t.clone() };
    let mut before = observe(nexus).await?;
    let mut j = Judge::new(case, before.seq);
    let hk = format!("hk-{t}");

    let base = plain_stmt(
        block_of(&[
            ("create_concept", format!("CREATE CONCEPT ?h {{ TYPE \"Person\" NAME \"holder {t}\" SET FIELDS {{key: {}}} }}", jstr(&hk))),
            ("create_concept", format!("CREATE CONCEPT ?r {{ TYPE \"Person\" NAME \"referenced {t}\" }}")),
            ("create_concept", format!("CREATE CONCEPT ?d {{ TYPE \"Preference\" NAME \"dark {t}\" SET ATTRIBUTES {{strength: 0.5}} }}")),
            ("create_concept", format!("CREATE CONCEPT ?lh {{ TYPE \"Person\" NAME \"held {t}\" }}")),
            ("ensure", "ENSURE PROPOSITION ?p (?r, \"prefers\", ?d)".to_string()),
            ("create_evidence", format!("CREATE EVIDENCE ?e {{ SET FIELDS {{evidence_class: \"user_statement\", payload: \"base {t}\"}} }}")),
            ("create_assertion", "CREATE ASSERTION ?a { SET FIELDS {proposition: ?p, asserted_by: ?r, stance: \"support\", mode: \"stated\", confidence: 0.7} SET STRUCTURAL { (\"evidence\", ?e) {role: \"support\"} } }".to_string()),
        ]),
        vec!["create_concept", "create_concept", "create_concept", "create_concept", "ensure", "create_evidence", "create_assertion"],
        vec![],
    );
    let o = play(nexus, None, &mut j, st, &mut before, &base, false).await?;
    let (Some(r), Some(d), Some(lh), Some(p)) = (o.handle("r"), o.handle("d"), o.handle("lh"), o.handle("p")) else {
        st.count(&format!("hist_base_not_committed:{}", o.error_code));
        return Ok(());
    };
    for _ in 0..rng.range(1, 3) {
        let w = world_of(&before.scan);
        let s = gen_stmt(rng, &mut g, &w, None, &CFG_COMMITS_ONLY);
        play(nexus, None, &mut j, st, &mut before, &s, false).await?;
    }
    let hold = plain_stmt(format!("SET RETENTION {} {{ legal_hold: true }}", jstr(&lh)), vec!["set_retention"], vec![]);
    let o = play(nexus, None, &mut j, st, &mut before, &hold, false).await?;
    if !o.committed() {
        st.count(&format!("hist_legal_hold_not_committed:{}", o.error_code));
    }

    for round in 0..rounds {
        let kind = HIST_REFUSALS[(case as usize * rounds + round) % HIST_REFUSALS.len()];
        let by_eraser = kind == "plan:authorization";
        let no_params = kind == "dry:preview";
        let u = g.next();
        if round > 0 && rng.bool() {
            let w = world_of(&before.scan);
            let s = gen_stmt(rng, &mut g, &w, None, &CFG_COMMITS_ONLY);
            play(nexus, None, &mut j, st, &mut before, &s, false).await?;
        }
        // --- the elements to erase: one statement creates them, a second gives them a second version
        let vc_name = format!("victim {t} {u}");
        let vkey = if rng.bool() { format!(" SET FIELDS {{key: {}}}", jstr(&format!("vk-{t}-{u}"))) } else { String::new() };
        let v1 = plain_stmt(
            block_of(&[
                ("create_concept", format!("CREATE CONCEPT ?vc {{ TYPE \"Person\" NAME {}{vkey} SET ATTRIBUTES {{note: 1}} }}", jstr(&vc_name))),
                ("create_concept", format!("CREATE CONCEPT ?vs {{ TYPE \"Person\" NAME \"subject {t} {u}\" }}")),
                ("create_concept", format!("CREATE CONCEPT ?vo {{ TYPE \"Preference\" NAME \"object {t} {u}\" }}")),
                ("ensure", "ENSURE PROPOSITION ?vp (?vs, \"prefers\", ?vo)".to_string()),
                ("create_evidence", format!("CREATE EVIDENCE ?ve {{ SET FIELDS {{evidence_class: \"user_statement\", payload: \"secret {t} {u}\"}} }}")),
                ("create_activity", "CREATE ACTIVITY ?vx { SET FIELDS {activity_class: \"reflection\"} }".to_string()),
                ("create_assertion", format!("CREATE ASSERTION ?va {{ SET FIELDS {{proposition: {}, asserted_by: {}, stance: \"support\", mode: \"observed\", confidence: 0.4}} }}", jstr(&p), jstr(&r))),
            ]),
            vec!["create_concept", "create_concept", "create_concept", "ensure", "create_evidence", "create_activity", "create_assertion"],
            vec![],
        );
        // (these two are ordinary commits of the kind `seq` judges by the thousand: executed only)
        let o = exec(&Via::System(nexus), &v1.cmd).await?;
        let hs: Vec<Option<String>> = ["vc", "vs", "vo", "vp", "ve", "vx", "va"].iter().map(|h| o.handle(h)).collect();
        if !o.committed() || hs.iter().any(|h| h.is_none()) {
            st.count(&format!("hist_victims_not_created:{}", o.error_code));
            before = observe(nexus).await?;
            continue;
        }
        let hs: Vec<String> = hs.into_iter().flatten().collect();
        let (vc, vs, vo, vp, ve, vx, va) = (&hs[0], &hs[1], &hs[2], &hs[3], &hs[4], &hs[5], &hs[6]);
        let v2 = plain_stmt(
            block_of(&[
                ("update_concept", format!("UPDATE {} SET ATTRIBUTES {{note: 2}}", jstr(vc))),
                ("update_concept", format!("UPDATE {} SET ATTRIBUTES {{note: 2}}", jstr(vs))),
                ("update_concept", format!("UPDATE {} SET ATTRIBUTES {{strength: 0.{}}}", jstr(vo), rng.range(1, 9))),
                ("update_proposition", format!("UPDATE {} SET ATTRIBUTES {{note: 2}}", jstr(vp))),
                ("set_retention", format!("SET RETENTION {} {{ retention_class: \"standard\", expires_at: \"2035-01-01T00:00:00Z\" }}", jstr(ve))),
                ("transition", format!("TRANSITION ACTIVITY {} TO \"running\"", jstr(vx))),
                ("set_retention", format!("SET RETENTION {} {{ retention_class: \"standard\", expires_at: \"2036-01-01T00:00:00Z\" }}", jstr(va))),
            ]),
            vec!["update_concept", "update_concept", "update_concept", "update_proposition", "set_retention", "transition", "set_retention"],
            vec![],
        );
        let o = exec(&Via::System(nexus), &v2.cmd).await?;
        if !o.committed() {
            st.count(&format!("hist_second_versions_not_committed:{}", o.error_code));
        }
        before = observe(nexus).await?;
        j.max_seq = j.max_seq.max(before.seq);
        j.history.push(json!({"cmd": v1.cmd.describe(), "outcome": "committed (victims)"}));
        j.history.push(json!({"cmd": v2.cmd.describe(), "outcome": if o.committed() { "committed (second versions)".to_string() } else { format!("refused:{}", o.error_code) }}));

        // --- the PURGE clauses
        let mut params: Vec<(&str, String)> = vec![];
        let mut clauses: Vec<(&'static str, String)> = vec![];
        let mut shapes: Vec<&'static str> = vec![];
        let mut expected: BTreeSet<String> = BTreeSet::new();
        let primary = (case as usize + round) % 5;
        let want = |g: usize, rng: &mut Rng| g == primary || rng.chance(1, 3);
        if by_eraser || want(0, rng) {
            let shape = if no_params { [0, 2][rng.usize(2)] } else { rng.usize(3) };
            match shape {
                0 => clauses.push(("purge", format!("PURGE {} CONFIRM \"PURGE\"", jstr(vc)))),
                1 => {
                    params.push(("pv", vc.clone()));
                    clauses.push(("purge", "PURGE :pv CONFIRM \"PURGE\"".to_string()));
                }
                _ => clauses.push(("purge_selection", format!("PURGE ?t WHERE {{ ?t CONCEPT {{name: {}}} }} LIMIT 1 CONFIRM \"PURGE\"", jstr(&vc_name)))),
            }
            shapes.push(PURGE_SHAPES[shape]);
            expected.insert(vc.clone());
        }
        if !by_eraser {
            for (grp, id, shape) in [(1usize, ve, 3usize), (2, vx, 4), (3, va, 5)] {
                if want(grp, rng) {
                    clauses.push(("purge", format!("PURGE {} CONFIRM \"PURGE\"", jstr(id))));
                    shapes.push(PURGE_SHAPES[shape]);
                    expected.insert(id.clone());
                }
            }
            if want(4, rng) {
                match rng.below(3) {
                    0 => {
                        clauses.push(("purge", format!("PURGE {} CONFIRM \"PURGE\"", jstr(vp))));
                        shapes.push(PURGE_SHAPES[6]);
                        expected.insert(vp.clone());
                    }
                    1 => {
                        clauses.push(("purge_keep_stub", format!("PURGE {} REFERENCE POLICY \"tombstone_reference\" CONFIRM \"PURGE\"", jstr(vs))));
                        shapes.push(PURGE_SHAPES[7]);
                        expected.insert(vs.clone());
                    }
                    _ => {
                        clauses.push(("purge_cascade", format!("PURGE {} REFERENCE POLICY \"authorized_cascade\" CONFIRM \"PURGE\"", jstr(vo))));
                        shapes.push(PURGE_SHAPES[8]);
                        expected.insert(vo.clone());
                        expected.insert(vp.clone());
                    }
                }
            }
        }
        // --- clauses that have nothing to do with it
        for _ in 0..rng.weighted(&[30, 40, 30]) {
            let n = g.next();
            match rng.below(if by_eraser { 2 } else { 3 }) {
                0 => clauses.push(("create_concept", format!("CREATE CONCEPT ?f{n} {{ TYPE \"Person\" NAME \"bystander {t} {n}\" }}"))),
                1 => clauses.push(("update_concept", format!("UPDATE {} SET ATTRIBUTES {{note: {}}}", jstr(&d), 10 + n))),
                _ => {
                    clauses.push(("create_concept", format!("CREATE CONCEPT ?f{n} {{ TYPE \"Person\" NAME \"bystander {t} {n}\" }}")));
                    clauses.push(("ensure", format!("ENSURE PROPOSITION ?fq{n} (?f{n}, \"prefers\", {})", jstr(&d))));
                }
            }
        }
        rng.shuffle(&mut clauses);
        let viable = clauses.clone();
        // --- what keeps the statement from committing
        let fresh = format!("tw-{t}-{u}");
        let failing: Vec<String> = match kind {
            "commit:key_held" => vec![format!("CREATE CONCEPT ?dup{u} {{ TYPE \"Person\" NAME \"usurper\" SET FIELDS {{key: {}}} }}", jstr(&hk))],
            "commit:key_twice_in_block" => vec![
                format!("CREATE CONCEPT ?tw{u}a {{ TYPE \"Person\" NAME \"twin a\" SET FIELDS {{key: {}}} }}", jstr(&fresh)),
                format!("CREATE CONCEPT ?tw{u}b {{ TYPE \"Person\" NAME \"twin b\" SET FIELDS {{key: {}}} }}", jstr(&fresh)),
            ],
            "commit:key_create_and_upsert_miss" => vec![
                format!("UPSERT CONCEPT ?um{u} {{ MATCH {{type: \"Person\", key: {}}} SET FIELDS {{name: \"upserted twin\"}} }}", jstr(&fresh)),
                format!("CREATE CONCEPT ?cm{u} {{ TYPE \"Person\" NAME \"created twin\" SET FIELDS {{key: {}}} }}", jstr(&fresh)),
            ],
            "commit:cross_space_reference" => {
                let Some(foreign) = world_of(&before.scan).foreign_concept else {
                    st.count("hist_no_foreign_concept");
                    continue;
                };
                params.push(("foreign", foreign));
                vec![format!("CREATE CONCEPT ?xs{u} {{ TYPE \"Insight\" NAME \"leaky\" SET ATTRIBUTES {{summary: \"s\"}} SET STRUCTURAL {{ (\"about\", :foreign) }} }}")]
            }
            "plan:missing_id" => vec!["UPDATE \"C-99999\" SET ATTRIBUTES {x: 1}".to_string()],
            "plan:expect_version" => vec![format!("UPDATE {} EXPECT VERSION 99 SET ATTRIBUTES {{x: 1}}", jstr(&d))],
            "plan:expect_state" => vec![format!("ARCHIVE {} EXPECT STATE \"quarantined\"", jstr(&d))],
            "plan:unknown_type" => vec![format!("CREATE CONCEPT ?z{u} {{ TYPE \"Spaceship\" NAME \"Enterprise\" }}")],
            "plan:unbound_param" => vec![format!("UPDATE :unbound{u} SET ATTRIBUTES {{x: 1}}")],
            "plan:immutable_field" => vec![format!("UPDATE {} SET FIELDS {{key: \"moved\"}}", jstr(&d))],
            "plan:constraint" => vec![format!("CREATE CONCEPT ?y{u} {{ TYPE \"Insight\" NAME \"no summary\" }}")],
            "plan:legal_hold_on_second_purge" => vec![format!("PURGE {} CONFIRM \"PURGE\"", jstr(&lh))],
            "plan:second_purge_denied_by_references" => vec![format!("PURGE {} CONFIRM \"PURGE\"", jstr(&r))],
            "plan:unknown_reference_policy" => vec![format!("PURGE {} REFERENCE POLICY \"delete_everything\" CONFIRM \"PURGE\"", jstr(&d))],
            "plan:authorization" => vec![format!("CREATE EVIDENCE ?w{u} {{ SET FIELDS {{evidence_class: \"user_statement\", payload: \"denied\"}} }}")],
            "parser:purge_without_confirm" => vec![format!("PURGE {}", jstr(&d))],
            _ => vec![],
        };
        let pos = if failing.is_empty() { "none" } else { *rng.pick(&["first", "middle", "last"]) };
        // supporting clauses of a two-clause conflict go anywhere, the one that completes it where
        // the position label says
        for (i, f) in failing.iter().enumerate() {
            let at = if i + 1 < failing.len() {
                rng.usize(clauses.len() + 1)
            } else {
                match pos {
                    "first" => 0,
                    "last" => clauses.len(),
                    _ => clauses.len() / 2,
                }
            };
            clauses.insert(at, ("f_hist", f.clone()));
        }
        let mk = |cl: &[(&'static str, String)], params: &[(&str, String)], dry: &'static str, fail: Option<(&'static str, &'static str)>| {
            let mut s = plain_stmt(block_of(cl), cl.iter().map(|c| c.0).collect(), params.to_vec());
            s.fail = fail;
            s.dry = dry;
            s.restricted = by_eraser;
            match dry {
                "option" => s.cmd.dry_run = true,
                "preview" => {
                    let inner = s.cmd.text.clone();
                    s.cmd = Cmd::new("PREVIEW KML :kml").param("kml", json!(inner));
                }
                _ => {}
            }
            s
        };
        let dry = match kind {
            "dry:option" => "option",
            "dry:preview" => "preview",
            _ => "none",
        };
        let session = if by_eraser { Some(&eraser) } else { None };
        let refused = mk(&clauses, &params, dry, if failing.is_empty() { None } else { Some((kind, pos)) });
        let o = play(nexus, session, &mut j, st, &mut before, &refused, true).await?;
        st.count("hist_statements_holding_a_purge_that_must_not_commit");
        if o.committed() {
            st.count(&format!("hist_statement_committed_all_the_same:{kind}"));
            continue;
        }
        // --- the same block without the refusing clause: the PURGE was viable
        let params2: Vec<(&str, String)> = params.iter().filter(|(k, _)| *k != "foreign").cloned().collect();
        let real = mk(&viable, &params2, "none", None);
        let o2 = play(nexus, session, &mut j, st, &mut before, &real, false).await?;
        let erased: BTreeSet<String> = o2.changes().into_iter().filter(|c| c.1 == "purge").map(|c| c.0).collect();
        if o2.committed() && expected.is_subset(&erased) {
            st.count(&format!("hist_refusal_with_a_viable_purge:{kind}"));
            st.count("hist_refusals_with_a_viable_purge");
            if kind.starts_with("commit:") {
                st.count("hist_commit_time_refusals_with_a_viable_purge");
            }
            for s in &shapes {
                st.count(&format!("hist_viable_purge_shape:{s}"));
                st.set("hist_purge_shape_x_refusal", vcore::fnv_str(&format!("{s}|{kind}")));
            }
            st.set("hist_refusal_x_position", vcore::fnv_str(&format!("{kind}@{pos}")));
            st.count(&format!("hist_purge_clauses_in_the_refused_statement:{}", shapes.len()));
        } else {
            st.count(&format!("hist_purge_not_viable:{kind}:{}", if o2.committed() { "commits_without_erasing" } else { o2.error_code.as_str() }));
        }
    }
    if j.n_commit >= 3 && j.n_refused >= 3 && j.codes.len() >= 2 {
        st.distinct(vcore::hash_debug(&j.history));
    }
    st.sample(|| json!({"monitor": "hist", "case": case, "statements": j.history.iter().rev().take(4).collect::<Vec<_>>()}));
    Ok(())
}

// ---------------------------------------------------------------------------------------------
// monitor 1d: a logical key is re-addressed after its holder went through every lifecycle
// transition there is. ARCHIVE, TOMBSTONE, MERGE CONCEPT .. INTO and the host's quarantine all keep
// the row, its id, its key and every reference to it (clauses.rs `remove`: "Neither archive nor
// tombstone erases anything"; `merge_concept`: "Nothing is copied and nothing is deleted";
// governance/element.rs); only PURGE leaves a stub without a key (governance/purge.rs `stub`). So
// "a logical key identifies at most one concept of a type" counts the holders in EVERY state but
// `pending` and `purged`-without-key, by the direct scan and by queries naming each state.

const KEY_TRANSITIONS: [&str; 13] = [
    "none",
    "archive",
    "tombstone",
    "archive+tombstone",
    "tombstone+archive",
    "merge",
    "merge+merge_survivor",
    "quarantine",
    "quarantine+release",
    "archive+quarantine+release",
    "purge",
    "merge+archive",
    "tombstone+quarantine",
];

const KEY_FORMS: [&str; 12] = [
    "upsert_typed",
    "upsert_with_tuple_clauses",
    "create_same_key",
    "create_and_upsert_in_one_block",
    "upsert_untyped",
    "upsert_create_only",
    "upsert_other_type",
    "upsert_other_space",
    "create_other_space",
    "dry_upsert",
    "preview_create",
    "two_upserts_in_one_block",
];

fn keys_case(case: u64, rng: &mut Rng, st: &mut Stats) {
    set_case("keys", case);
    let r = vcore::run::block_on(keys_case_async(case, rng, st));
    if let Err(e) = r {
        st.inconclusive(format!("C17 keys: harness trouble: {e}"));
    }
}

/// The Concepts that hold (space, type, key) in the scan: every state but `pending`.
fn holders_of(scan: &Scan, space: &str, typ: &str, key: &str) -> Vec<(String, String)> {
    elements(scan)
        .into_iter()
        .filter(|(id, r)| id.starts_with("C-") && r["state"] != "pending" && r["space"] == json!(space) && r["key"] == json!(key) && local_name(r["schema_ref"].as_str().unwrap_or("")) == typ)
        .map(|(id, r)| (id, r["state"].as_str().unwrap_or("").to_string()))
        .collect()
}

/// A statement executed in the OTHER Space: the oracles of `Judge` read the default Space's
/// counter, so this one gets the subset that does not: nothing of the default Space moves, a
/// refusal moves nothing at all, the identity oracles.
fn judge_foreign(st: &mut Stats, j: &mut Judge, before: &Obs, after: &Obs, stmt: &Stmt, out: &Outcome) {
    st.eval();
    let case = j.case;
    let h2 = j.history.clone();
    let (s2, o2) = (stmt.clone(), out.clone());
    let cx = move || ctx(case, &h2, &s2, &o2);
    if out.committed() {
        st.count("stmt_committed_in_the_other_space");
        let mine = |o: &Obs| -> BTreeMap<String, String> {
            elements(&o.scan).into_iter().filter(|(_, r)| r["space"] == DEFAULT_SPACE).map(|(id, r)| (id, canon(r))).collect()
        };
        let (a, b) = (mine(before), mine(after));
        // (the battery asks HISTORY ELEMENT for every id of the scan: the questions both sides asked)
        let asked: BTreeMap<String, String> = after.battery.iter().filter(|(q, _)| before.battery.contains_key(*q)).map(|(q, a)| (q.clone(), a.clone())).collect();
        if a != b || before.battery != asked || before.asof != after.asof {
            let d = diff_maps(&a, &b, 8);
            let dq = diff_maps(&before.battery, &asked, 8);
            report_once(st, "C17/commit/statement_in_another_space_changed_this_space", || json!({"element_rows": d, "query_answers": dq, "past_reads_moved": before.asof != after.asof, "context": cx()}));
        }
        check_upsert_binding(before, after, stmt, out, st, &cx);
    } else {
        st.count(&format!("refused_in_the_other_space:{}", out.error_code));
        check_unchanged(before, after, "refused", &out.error_code, st, &cx);
    }
    check_identity(after, st, &cx);
    j.history.push(json!({"cmd": stmt.cmd.describe(), "outcome": if out.committed() { "committed in the other space".to_string() } else { format!("refused:{}", out.error_code) }}));
}

async fn keys_case_async(case: u64, rng: &mut Rng, st: &mut Stats) -> Result<(), String> {
    let fx = fixture(Arc::new(InMemory::new()), &format!("c17y_{case}"), true).await?;
    let nexus = &fx.nexus;
    let sys = nexus.system_session();
    let (typ, other) = if case % 2 == 0 { ("Person", "Preference") } else { ("Preference", "Person") };
    let transition = KEY_TRANSITIONS[(case / 2) as usize % KEY_TRANSITIONS.len()];
    let t = format!("y{case}");
    let key = format!("lk-{t}");
    let mut g = Gen { uid: 0, tag: t.clone() };
    let mut before = observe(nexus).await?;
    let mut j = Judge::new(case, before.seq);
    let mint = if rng.bool() {
        ("create_concept", format!("CREATE CONCEPT ?h {{ TYPE {} NAME \"holder {t}\" SET FIELDS {{key: {}}} }}", jstr(typ), jstr(&key)))
    } else {
        ("upsert_miss", format!("UPSERT CONCEPT ?h {{ MATCH {{type: {}, key: {}}} SET FIELDS {{name: \"holder {t}\"}} }}", jstr(typ), jstr(&key)))
    };
    let tuple = if typ == "Person" { "ENSURE PROPOSITION ?p (?h, \"prefers\", ?w)" } else { "ENSURE PROPOSITION ?p (?w, \"prefers\", ?h)" };
    let setup = [
        mint,
        ("create_concept", format!("CREATE CONCEPT ?s1 {{ TYPE {} NAME \"survivor one {t}\" SET FIELDS {{key: {}}} }}", jstr(typ), jstr(&format!("{key}-s1")))),
        ("create_concept", format!("CREATE CONCEPT ?s2 {{ TYPE {} NAME \"survivor two {t}\" }}", jstr(typ))),
        ("create_concept", format!("CREATE CONCEPT ?w {{ TYPE {} NAME \"partner {t}\" }}", jstr(other))),
        ("ensure", tuple.to_string()),
    ];
    let s = plain_stmt(block_of(&setup), setup.iter().map(|c| c.0).collect(), vec![]);
    let o = play(nexus, None, &mut j, st, &mut before, &s, false).await?;
    let (Some(h), Some(s1), Some(s2), Some(w)) = (o.handle("h"), o.handle("s1"), o.handle("s2"), o.handle("w")) else {
        st.count(&format!("keys_setup_not_committed:{}", o.error_code));
        return Ok(());
    };
    let s = plain_stmt(format!("UPDATE {} SET ATTRIBUTES {{note: 1}}", jstr(&h)), vec!["update_concept"], vec![]);
    play(nexus, None, &mut j, st, &mut before, &s, false).await?;
    if rng.bool() {
        // the same key under the other type is another identity (Spec 7.3): legal, measured
        let s = plain_stmt(format!("CREATE CONCEPT ?ot {{ TYPE {} NAME \"same key, other type\" SET FIELDS {{key: {}}} }}", jstr(other), jstr(&key)), vec!["create_concept"], vec![]);
        let o = play(nexus, None, &mut j, st, &mut before, &s, false).await?;
        st.count(&format!("keys_same_key_under_another_type:{}", if o.committed() { "accepted" } else { o.error_code.as_str() }));
    }

    // --- the holder's lifecycle
    st.count(&format!("keys_transition:{transition}"));
    if transition != "none" {
        for step in transition.split('+') {
            let kml = match step {
                "archive" => Some(("archive", format!("ARCHIVE {}", jstr(&h)))),
                "tombstone" => Some(("tombstone", format!("TOMBSTONE {}", jstr(&h)))),
                "merge" => Some(("merge", format!("MERGE CONCEPT {} INTO {}", jstr(&h), jstr(&s1)))),
                "merge_survivor" => Some(("merge", format!("MERGE CONCEPT {} INTO {}", jstr(&s1), jstr(&s2)))),
                "purge" => Some(("purge_keep_stub", format!("PURGE {} REFERENCE POLICY \"tombstone_reference\" CONFIRM \"PURGE\"", jstr(&h)))),
                _ => None,
            };
            match kml {
                Some((k, text)) => {
                    let s = plain_stmt(text, vec![k], vec![]);
                    let o = play(nexus, None, &mut j, st, &mut before, &s, false).await?;
                    if !o.committed() {
                        st.count(&format!("keys_transition_step_not_committed:{step}:{}", o.error_code));
                    }
                }
                None => {
                    let id: anda_cognitive_nexus::id::ElementId = h.parse().map_err(|e| format!("element id {h}: {e:?}"))?;
                    let r = if step == "quarantine" { sys.quarantine(DEFAULT_SPACE, id, "under review").await } else { sys.release_quarantine(DEFAULT_SPACE, id).await };
                    if let Err(e) = r {
                        st.count(&format!("keys_host_step_refused:{step}:{}", e.code));
                    } else {
                        st.count(&format!("keys_host_step:{step}"));
                    }
                    before = observe(nexus).await?;
                    j.max_seq = j.max_seq.max(before.seq);
                    j.history.push(json!({"host_call": step, "element": h}));
                }
            }
        }
    }
    let hs = holders_of(&before.scan, DEFAULT_SPACE, typ, &key);
    let hstate = hs.first().map(|x| x.1.clone()).unwrap_or_else(|| "no_holder".to_string());
    st.count(&format!("keys_holder_state_when_readdressed:{hstate}"));

    // --- the key is addressed again, in every form
    let mut forms: Vec<&'static str> = KEY_FORMS.to_vec();
    rng.shuffle(&mut forms);
    for form in forms {
        let u = g.next();
        let held = holders_of(&before.scan, DEFAULT_SPACE, typ, &key);
        let held_state = held.first().map(|x| x.1.clone()).unwrap_or_else(|| "no_holder".to_string());
        let upsert = |h: &str, typ: Option<&str>, tail: &str| {
            let m = match typ {
                Some(t) => format!("type: {}, key: {}", jstr(t), jstr(&key)),
                None => format!("key: {}", jstr(&key)),
            };
            format!("UPSERT CONCEPT ?{h} {{ MATCH {{{m}}}{tail} }}")
        };
        let create = format!("CREATE CONCEPT ?n{u} {{ TYPE {} NAME \"second {t} {u}\" SET FIELDS {{key: {}}} }}", jstr(typ), jstr(&key));
        let note = format!(" SET ATTRIBUTES {{note: {}}}", 100 + u);
        let mut stmt = match form {
            "upsert_typed" | "upsert_other_space" | "dry_upsert" => plain_stmt(upsert(&format!("a{u}"), Some(typ), &note), vec!["upsert"], vec![]),
            "upsert_with_tuple_clauses" => {
                let a = format!("?a{u}");
                let (s, o, by) = if typ == "Person" { (a.clone(), ":w".to_string(), a.clone()) } else { (":w".to_string(), a.clone(), ":w".to_string()) };
                let mut cl = vec![("upsert", upsert(&format!("a{u}"), Some(typ), &note)), ("ensure", format!("ENSURE PROPOSITION ?q{u} ({s}, \"prefers\", {o})"))];
                if rng.bool() {
                    cl.push(("assert_sugar", format!("ASSERT ?x{u} ({s}, \"prefers\", {o}) {{ by: {by}, mode: \"stated\", confidence: 0.6 }}")));
                }
                // UPSERT and ENSURE are planned in one pass, in text order, and an UPSERT binds its
                // handle late (clauses.rs plan_pass): a tuple clause in front of the UPSERT it names is
                // refused; kept as one shape in four for the all-or-nothing oracle
                if rng.chance(1, 4) {
                    rng.shuffle(&mut cl);
                }
                plain_stmt(block_of(&cl), cl.iter().map(|c| c.0).collect(), vec![("w", w.clone())])
            }
            "create_same_key" | "create_other_space" | "preview_create" => plain_stmt(create.clone(), vec!["create_concept"], vec![]),
            "create_and_upsert_in_one_block" => {
                let mut cl = vec![("create_concept", create.clone()), ("upsert", upsert(&format!("a{u}"), Some(typ), &note))];
                rng.shuffle(&mut cl);
                plain_stmt(block_of(&cl), cl.iter().map(|c| c.0).collect(), vec![])
            }
            "upsert_untyped" => plain_stmt(upsert(&format!("a{u}"), None, &note), vec!["upsert"], vec![]),
            "upsert_create_only" => plain_stmt(upsert(&format!("a{u}"), Some(typ), &format!(" EXPECT VERSION 0 SET FIELDS {{name: \"fresh {t} {u}\"}}")), vec!["upsert"], vec![]),
            "upsert_other_type" => plain_stmt(upsert(&format!("a{u}"), Some(other), &format!(" SET FIELDS {{name: \"other type {t} {u}\"}}")), vec!["upsert"], vec![]),
            _ => {
                let cl = vec![("upsert", upsert(&format!("a{u}"), Some(typ), &note)), ("upsert", upsert(&format!("b{u}"), Some(typ), &format!(" SET ATTRIBUTES {{tag: \"t{u}\"}}")))];
                plain_stmt(block_of(&cl), cl.iter().map(|c| c.0).collect(), vec![])
            }
        };
        match form {
            "dry_upsert" => {
                stmt.dry = "option";
                stmt.cmd.dry_run = true;
            }
            "preview_create" => {
                stmt.dry = "preview";
                let inner = stmt.cmd.text.clone();
                stmt.cmd = Cmd::new("PREVIEW KML :kml").param("kml", json!(inner));
            }
            _ => {}
        }
        let foreign = matches!(form, "upsert_other_space" | "create_other_space");
        let out = if foreign {
            stmt.cmd.space = Some(OTHER_SPACE.to_string());
            let out = exec(&Via::System(nexus), &stmt.cmd).await?;
            let after = observe(nexus).await?;
            judge_foreign(st, &mut j, &before, &after, &stmt, &out);
            before = after;
            out
        } else {
            play(nexus, None, &mut j, st, &mut before, &stmt, false).await?
        };
        let outcome = if stmt.dry != "none" {
            "dry".to_string()
        } else if out.committed() {
            out.receipt_status.clone()
        } else {
            format!("refused:{}", out.error_code)
        };
        st.count(&format!("keys_form:{form}:{outcome}"));
        st.set("keys_transition_x_form", vcore::fnv_str(&format!("{transition}|{form}")));
        st.set("keys_holder_state_x_form_x_outcome", vcore::fnv_str(&format!("{held_state}|{form}|{outcome}")));
        if !foreign && stmt.dry == "none" && !held.is_empty() {
            if form.starts_with("create") {
                // a second claimant of a held key: the commit must refuse it (or the scan below finds two)
                st.count(&format!("keys_create_on_a_key_whose_holder_is:{held_state}"));
                st.count(&format!("keys_create_on_a_key_whose_holder_is:{held_state}:{}", if out.committed() { "accepted" } else { "refused" }));
            }
            st.count("keys_statements_addressing_a_held_key");
            if held_state != "active" {
                st.count("keys_statements_addressing_a_key_whose_holder_left_ordinary_recall");
            }
        }
        if form == "two_upserts_in_one_block" && out.committed() {
            st.count("oracle_two_upserts_of_one_key_bind_one_element");
            if out.handle(&format!("a{u}")) != out.handle(&format!("b{u}")) {
                let (hist, o2) = (j.history.clone(), out.clone());
                report_once(st, "C17/identity/two_upserts_of_one_key_in_one_block_bound_two_elements", || {
                    json!({"key": key, "type": typ, "handles": o2.result["handles"], "case": case, "history": hist})
                });
            }
        }
        // what queries say: over every state a Concept can be found in, one (type, key) names at most
        // one Concept of the Space
        let mut found: BTreeSet<String> = BTreeSet::new();
        for state in ["active", "archived", "tombstoned", "merged", "quarantined", "purged"] {
            let q = format!("FIND(?c.id) WHERE {{ ?c CONCEPT {{type: {}, key: {}, state: {}}} }}", jstr(typ), jstr(&key), jstr(state));
            match read(nexus, &q).await {
                Ok(v) => found.extend(v.as_array().map(|a| a.iter().filter_map(|x| x.as_str().map(|s| format!("{s} ({state})"))).collect::<Vec<_>>()).unwrap_or_default()),
                Err(e) if e.starts_with("HARNESS") => return Err(format!("{e} in {q}")),
                Err(_) => st.count("keys_holder_query_refused(measured)"),
            }
        }
        st.count("oracle_queries_find_at_most_one_holder_of_a_key");
        if found.len() > 1 {
            let hist = j.history.clone();
            report_once(st, "C17/identity/queries_find_two_concepts_under_one_key", || {
                json!({"what": "queries naming each engine state find more than one Concept of the type under one logical key", "type": typ, "key": key, "found": found, "case": case, "history": hist})
            });
        }
    }
    st.distinct(vcore::hash_debug(&j.history));
    st.sample(|| json!({"monitor": "keys", "case": case, "transition": transition, "statements": j.history.iter().rev().take(4).collect::<Vec<_>>()}));
    Ok(())
}

// ---------------------------------------------------------------------------------------------
// monitor 1b: one element per proposition tuple *per Space*. Two Spaces can hold the same
// semantic tuple only over endpoints that exist in neither (a reference to a missing element is
// accepted by design: store/write.rs check_same_space), which is what this workload uses.

fn spaces_case(case: u64, rng: &mut Rng, st: &mut Stats, rounds: usize) {
    set_case("spaces", case);
    let r = vcore::run::block_on(async {
        let fx = fixture(Arc::new(InMemory::new()), &format!("c17s_{case}"), true).await?;
        let mut model: BTreeMap<(String, String, String, String), String> = BTreeMap::new();
        let mut log = vec![];
        for _ in 0..rounds {
            let space = if rng.bool() { DEFAULT_SPACE } else { OTHER_SPACE };
            let s = format!("C-{}", 90000 + rng.below(3));
            let o = format!("C-{}", 91000 + rng.below(3));
            let pred = *rng.pick(&["same_as", "caused_by"]);
            let mut cmd = Cmd::new(format!("ENSURE PROPOSITION ?p (:s, {}, :o)", jstr(pred))).param("s", json!(s)).param("o", json!(o));
            cmd.space = Some(space.to_string());
            let out = exec(&Via::System(&fx.nexus), &cmd).await?;
            st.eval();
            let key = (space.to_string(), s.clone(), pred.to_string(), o.clone());
            log.push(json!({"space": space, "tuple": [s, pred, o], "handle": out.handle("p"), "receipt": out.receipt_status, "error": out.error_code}));
            let cx = || json!({"case": case, "log": log});
            if !out.committed() {
                st.count(&format!("spaces_ensure_refused:{}", out.error_code));
                if out.error_code == "IdentityConflict" {
                    report_once(st, "C17/identity/tuple_clause_collides_instead_of_resolving", || {
                        json!({"what": "ENSURE PROPOSITION was refused for an identity conflict instead of resolving", "error": out.error_message, "context": cx()})
                    });
                }
                continue;
            }
            let Some(id) = out.handle("p") else {
                report_once(st, "C17/identity/ensure_bound_no_handle", &cx);
                continue;
            };
            let sc = scan(&fx.nexus).await?;
            let row_space = elements(&sc).get(&id).map(|r| r["space"].as_str().unwrap_or("").to_string()).unwrap_or_default();
            st.count("oracle_tuple_resolves_inside_its_space");
            if row_space != space {
                report_once(st, "C17/identity/tuple_resolved_to_an_element_of_another_space", || {
                    json!({"what": "ENSURE PROPOSITION bound its handle to an element that lives in another Space", "request_space": space, "element": id, "element_space": row_space, "context": cx()})
                });
            }
            match model.get(&key) {
                Some(known) => {
                    st.count("spaces_ensure_hit");
                    if *known != id || out.receipt_status != "no_effect" {
                        report_once(st, "C17/identity/same_tuple_resolved_to_a_second_element", || json!({"known": known, "got": id, "receipt": out.receipt_status, "context": cx()}));
                    }
                }
                None => {
                    st.count("spaces_ensure_miss");
                    if model.values().any(|v| *v == id) && row_space == space {
                        report_once(st, "C17/identity/two_tuples_resolved_to_one_element", || json!({"got": id, "context": cx()}));
                    }
                    model.insert(key.clone(), id.clone());
                }
            }
            if model.keys().any(|k| k.0 != key.0 && k.1 == key.1 && k.2 == key.2 && k.3 == key.3) {
                st.count("spaces_same_tuple_present_in_both_spaces");
            }
        }
        // each Space sees exactly its own tuples
        for space in [DEFAULT_SPACE, OTHER_SPACE] {
            let mut cmd = Cmd::new("FIND(?p.id) WHERE { ?p PROPOSITION (?s, ?pr, ?o) }");
            cmd.space = Some(space.to_string());
            let out = exec(&Via::System(&fx.nexus), &cmd).await?;
            let got: BTreeSet<String> = out.result.as_array().map(|a| a.iter().filter_map(|x| x.as_str().map(|s| s.to_string())).collect()).unwrap_or_default();
            let want: BTreeSet<String> = model.iter().filter(|(k, _)| k.0 == space).map(|(_, v)| v.clone()).collect();
            st.count("oracle_space_sees_its_own_tuples");
            if got != want {
                report_once(st, "C17/identity/space_does_not_see_exactly_its_own_propositions", || json!({"space": space, "query_answer": got, "ensured": want, "case": case, "log": log}));
            }
        }
        Ok::<(), String>(())
    });
    if let Err(e) = r {
        st.inconclusive(format!("C17 spaces: harness trouble: {e}"));
    }
}

// ---------------------------------------------------------------------------------------------
// monitor 2: atomic visibility under real concurrency (multi-thread runtime)

fn vis_case(case: u64, rng: &mut Rng, st: &mut Stats, rounds: usize, with_preview: bool) {
    let rt = match tokio::runtime::Builder::new_multi_thread().worker_threads(4).enable_time().build() {
        Ok(rt) => rt,
        Err(e) => {
            st.inconclusive(format!("C17 vis: runtime: {e}"));
            return;
        }
    };
    let b = rng.range(2, 5) as usize;
    let seed = rng.next_u64();
    let res: Result<Stats, String> = rt.block_on(async move {
        let fx = fixture(Arc::new(InMemory::new()), &format!("c17v_{case}"), false).await?;
        let nexus = fx.nexus.clone();
        let done = Arc::new(AtomicBool::new(false));
        let commits = Arc::new(AtomicU64::new(0));
        let mut readers = vec![];
        for r in 0..3u64 {
            let (nexus, done, commits) = (nexus.clone(), done.clone(), commits.clone());
            readers.push(tokio::spawn(async move {
                set_case("vis", case);
                let mut st = Stats::default();
                let mut last_commits = 0;
                let mut i = 0u64;
                loop {
                    let finished = done.load(Ordering::SeqCst);
                    let q = match (i + r) % 3 {
                        0 => "FIND(COUNT(?c)) WHERE { ?c CONCEPT {type: \"Event\"} }",
                        1 => "FIND(?c.attributes.round) WHERE { ?c CONCEPT {type: \"Event\"} }",
                        _ => "FIND(COUNT(?c)) WHERE { ?c CONCEPT {state: \"pending\"} }",
                    };
                    let c0 = commits.load(Ordering::SeqCst);
                    let ans = read(&nexus, q).await;
                    let c1 = commits.load(Ordering::SeqCst);
                    st.count("vis_reads");
                    if c1 != c0 || c1 != last_commits {
                        st.count("vis_reads_overlapping_or_following_a_commit");
                    }
                    last_commits = c1;
                    match ((i + r) % 3, ans) {
                        (0, Ok(v)) => {
                            let n = v[0].as_u64().unwrap_or(0) as usize;
                            if n % b != 0 {
                                report_once(&mut st, "C17/visibility/partial_statement_observed", || {
                                    json!({"what": "a reader counted a number of elements that no set of whole statements produces", "count": n, "batch": b, "case": case})
                                });
                            }
                        }
                        (1, Ok(v)) => {
                            let vals: BTreeSet<String> = v.as_array().map(|a| a.iter().filter(|x| !x.is_null()).map(|x| x.to_string()).collect()).unwrap_or_default();
                            if vals.len() > 1 {
                                report_once(&mut st, "C17/visibility/partial_update_observed", || {
                                    json!({"what": "one UPDATE statement sets `round` on every Event; a reader saw two different values", "values": vals, "case": case})
                                });
                            }
                        }
                        (2, Ok(v)) => {
                            if v[0].as_u64().unwrap_or(0) > 0 {
                                if with_preview {
                                    // PREVIEW KML runs its dry run under the shared lock
                                    st.count("vis_reader_saw_pending_rows_while_previews_run(measured)");
                                } else {
                                    report_once(&mut st, "C17/visibility/pending_row_observed_by_reader", || {
                                        json!({"what": "a reader saw a row in state `pending` although every writer statement takes the exclusive lock", "answer": v, "case": case})
                                    });
                                }
                            }
                        }
                        (_, Err(e)) => st.inconclusive(format!("C17 vis: reader query failed: {e}")),
                        _ => {}
                    }
                    i += 1;
                    if finished {
                        break;
                    }
                    tokio::task::yield_now().await;
                }
                st
            }));
        }
        // META readers on OS threads and runtimes of their own (two connections of a server end up
        // on two workers): EXPORT CAPSULE and DESCRIBE PRIMER read many rows in one command and
        // must be whole-statement snapshots exactly like KQL reads
        let primer_base = read(&nexus, "DESCRIBE PRIMER").await.ok().and_then(|p| p["contents"]["concept"].as_u64());
        let mut meta_threads = vec![];
        for r in 0..2u64 {
            let (nexus, done) = (nexus.clone(), done.clone());
            meta_threads.push(std::thread::spawn(move || {
                let mut st = Stats::default();
                let Ok(rt) = tokio::runtime::Builder::new_current_thread().enable_time().build() else { return st };
                rt.block_on(async {
                    set_case("vis", case);
                    let mut i = 0u64;
                    loop {
                        let finished = done.load(Ordering::SeqCst);
                        if (i + r) % 2 == 0 {
                            match read(&nexus, "EXPORT CAPSULE ?c WHERE { ?c CONCEPT {type: \"Event\"} } WITH {closure: \"none\"}").await {
                                Ok(cap) => {
                                    st.count("vis_meta_reads_export");
                                    let recs = cap["payload"]["records"]["concepts"].as_array().cloned().unwrap_or_default();
                                    let live = recs.iter().filter(|c| c["state"].as_str().unwrap_or("active") != "pending" && c["_system"]["state"].as_str().unwrap_or("active") != "pending").count();
                                    if live % b != 0 {
                                        report_once(&mut st, "C17/visibility/partial_statement_observed_by_export", || {
                                            json!({"what": "an EXPORT CAPSULE carried a number of Event concepts that no set of whole statements produces", "count": live, "batch": b, "case": case,
                                                   "snapshot_seq": cap["payload"]["source"]["snapshot_seq"]})
                                        });
                                    }
                                }
                                Err(e) if e.starts_with("HARNESS-PARSE") => st.inconclusive(format!("C17 vis: EXPORT did not parse: {e}")),
                                Err(_) => st.count("vis_meta_export_refused(measured)"),
                            }
                        } else if let Some(base) = primer_base {
                            match read(&nexus, "DESCRIBE PRIMER").await {
                                Ok(p) => {
                                    st.count("vis_meta_reads_primer");
                                    if let Some(n) = p["contents"]["concept"].as_u64() {
                                        if with_preview && (n < base || ((n - base) as usize) % b != 0) {
                                            // PREVIEW KML mints and removes its shells under the shared lock
                                            st.count("vis_primer_count_off_while_previews_run(measured)");
                                        } else if n < base || ((n - base) as usize) % b != 0 {
                                            report_once(&mut st, "C17/visibility/partial_statement_observed_by_primer", || {
                                                json!({"what": "DESCRIBE PRIMER reported a number of concepts that no set of whole statements produces", "count": n, "before_the_writer_started": base, "batch": b, "case": case})
                                            });
                                        }
                                    }
                                }
                                Err(_) => st.count("vis_meta_primer_refused(measured)"),
                            }
                        }
                        i += 1;
                        if finished {
                            break;
                        }
                        tokio::task::yield_now().await;
                    }
                });
                st
            }));
        }
        let mut wr = Rng::new(seed);
        let mut wst = Stats::default();
        for round in 0..rounds {
            let cmd = match wr.weighted(&[40, 30, 15, if with_preview { 15 } else { 0 }]) {
                0 => {
                    let cl: Vec<String> = (0..b)
                        .map(|i| format!("CREATE CONCEPT ?e{i} {{ TYPE \"Event\" NAME \"ev{round}_{i}\" SET ATTRIBUTES {{summary: \"s\", gen: {round}}} }}"))
                        .collect();
                    Cmd::new(format!("MUTATE {{ {} }}", cl.join(" ")))
                }
                1 => Cmd::new(format!("UPDATE ?m SET ATTRIBUTES {{round: {round}}} WHERE {{ ?m CONCEPT {{type: \"Event\"}} }}")),
                2 => {
                    // refused after the shells of a whole batch were minted
                    let mut cl: Vec<String> = (0..b)
                        .map(|i| format!("CREATE CONCEPT ?e{i} {{ TYPE \"Event\" NAME \"ghost{round}_{i}\" SET ATTRIBUTES {{summary: \"s\"}} }}"))
                        .collect();
                    cl.push("UPDATE \"C-99999\" SET ATTRIBUTES {x: 1}".into());
                    Cmd::new(format!("MUTATE {{ {} }}", cl.join(" ")))
                }
                _ => {
                    let cl: Vec<String> = (0..b)
                        .map(|i| format!("CREATE CONCEPT ?e{i} {{ TYPE \"Event\" NAME \"dry{round}_{i}\" SET ATTRIBUTES {{summary: \"s\"}} }}"))
                        .collect();
                    Cmd::new("PREVIEW KML :kml").param("kml", json!(format!("MUTATE {{ {} }}", cl.join(" "))))
                }
            };
            let o = exec(&Via::System(&nexus), &cmd).await?;
            if o.committed() {
                commits.fetch_add(1, Ordering::SeqCst);
                wst.count("vis_writer_commits");
            } else {
                wst.count("vis_writer_non_commits");
            }
            tokio::task::yield_now().await;
        }
        done.store(true, Ordering::SeqCst);
        for r in readers {
            match r.await {
                Ok(s) => wst.merge(s),
                Err(e) => return Err(format!("reader task: {e}")),
            }
        }
        for t in meta_threads {
            match tokio::task::spawn_blocking(move || t.join()).await {
                Ok(Ok(s)) => wst.merge(s),
                _ => return Err("META reader thread panicked".into()),
            }
        }
        Ok(wst)
    });
    match res {
        Ok(s) => {
            st.merge(s);
            st.eval();
        }
        Err(e) => st.inconclusive(format!("C17 vis: harness trouble: {e}")),
    }
}

// ---------------------------------------------------------------------------------------------
// monitor 3: crash prefixes

fn crash_case(case: u64, rng: &mut Rng, st: &mut Stats, n_stmts: usize, max_prefixes: usize) {
    set_case("crash", case);
    let r = vcore::run::block_on(crash_case_async(case, rng, st, n_stmts, max_prefixes));
    if let Err(e) = r {
        st.inconclusive(format!("C17 crash: harness trouble: {e}"));
    }
}

async fn crash_case_async(case: u64, rng: &mut Rng, st: &mut Stats, n_stmts: usize, max_prefixes: usize) -> Result<(), String> {
    let rec = RecStore::new();
    let name = format!("c17k_{case}");
    let fx = fixture(Arc::new(rec.clone()), &name, false).await?;
    let base = rec.landed() as usize;
    let mut g = Gen { uid: 0, tag: format!("k{case}") };
    let mut texts = vec![];
    // (mutations landed when the statement returned, journal seqs committed so far)
    let mut acked: Vec<(usize, BTreeSet<u64>)> = vec![];
    let mut committed: BTreeSet<u64> = BTreeSet::new();
    for _ in 0..n_stmts {
        let w = world_of(&scan(&fx.nexus).await?);
        let mut stmt = gen_stmt(rng, &mut g, &w, None, &CFG_C17);
        if stmt.dry == "preview" || stmt.restricted {
            continue;
        }
        stmt.cmd.dry_run = false;
        let out = exec(&Via::System(&fx.nexus), &stmt.cmd).await?;
        if out.committed() {
            committed.insert(out.space_seq.unwrap());
        }
        texts.push(json!({"cmd": stmt.cmd.describe(), "committed_at_seq": out.space_seq, "error": out.error_code}));
        acked.push((rec.landed() as usize, committed.clone()));
    }
    let total = rec.landed() as usize;
    let mut ks: Vec<usize> = (base..=total).collect();
    if ks.len() > max_prefixes {
        rng.shuffle(&mut ks);
        ks.truncate(max_prefixes);
        ks.sort_unstable();
    }
    st.add("crash_mutations_in_workloads", (total - base) as u64);
    for k in ks {
        let disk = rec.materialize(k).await;
        st.count("crash_prefixes");
        st.eval();
        let cx = || json!({"case": case, "crash_after_mutation": k, "first_workload_mutation": base, "total_mutations": total, "statements": texts});
        let nexus = match open_nexus(disk, &name).await {
            Ok(n) => n,
            Err(e) => {
                report_once(st, "C17/crash/reopen_failed", || json!({"error": e, "context": cx()}));
                continue;
            }
        };
        st.count("crash_reopen_ok");
        let sc = scan(&nexus).await?;
        let p = pending_ids(&sc);
        if !p.is_empty() {
            report_once(st, "C17/crash/pending_row_survives_reopen", || json!({"pending": p, "context": cx()}));
        }
        for kind in KINDS {
            match read(&nexus, &format!("FIND(COUNT(?x)) WHERE {{ ?x {kind} {{state: \"pending\"}} }}")).await {
                Ok(v) if v[0].as_u64() == Some(0) => {}
                Ok(v) => report_once(st, "C17/crash/pending_row_visible_to_query", || json!({"kind": kind, "answer": v, "context": cx()})),
                Err(e) => report_once(st, "C17/crash/query_fails_after_reopen", || json!({"kind": kind, "error": e, "context": cx()})),
            }
            st.count("crash_pending_queries");
        }
        // measurements (documented: no write-ahead log, a crash during commit can leave elements)
        let journal: BTreeSet<u64> = sc["transactions"].values().filter(|r| r["space"] == DEFAULT_SPACE).filter_map(|r| r["seq"].as_u64()).collect();
        let orphan = elements(&sc).values().filter(|r| r["space"] == DEFAULT_SPACE).any(|r| r["seq"].as_u64().map(|s| !journal.contains(&s)).unwrap_or(false));
        if orphan {
            st.count("crash_states_with_elements_of_an_unjournalled_commit(measured)");
        }
        let must: BTreeSet<u64> = acked.iter().filter(|(l, _)| *l <= k).map(|(_, c)| c.clone()).last().unwrap_or_default();
        if !must.is_subset(&journal) {
            st.count("crash_states_missing_an_acknowledged_commit(measured; durability is C01)");
        }
        // the reopened engine keeps working
        let o = exec(&Via::System(&nexus), &Cmd::new("CREATE CONCEPT ?x { TYPE \"Person\" NAME \"after crash\" }")).await?;
        if o.committed() {
            st.count("crash_reopened_engine_commits");
        } else {
            st.count("crash_reopened_engine_refuses_write(measured)");
        }
    }
    st.distinct(vcore::hash_debug(&texts));
    Ok(())
}

// ---------------------------------------------------------------------------------------------

fn main() {
    let mut run = Run::from_args(
        "C17",
        "exploration",
        "seeded sequences of generated KML statements (multi-clause MUTATE blocks with forward \
         references, UPSERT/ENSURE hits and misses, one tuple named by two clauses, guards, 13 injected failure \
         classes at first/middle/last position, dry runs, retries; statements holding a PURGE that are refused in 18 ways; a logical key \
         addressed again after 13 lifecycle histories of its holder) against the bundled cognitive-memory \
         profile; a sequence is non-trivial when it has >= 3 commits and >= 3 refusals with >= 2 \
         error codes (distinct by statement texts)",
    );
    run.assume("observation = the ten cognitive collections (governance/audit collections are a separate plane and excluded) + the KQL/META battery; collection counters (max_document_id, stats) and index residue are not observed");
    run.assume("answers of queries without ORDER BY are compared as multisets of rows");
    run.assume("masked as legitimately tied to the Space counter: spaces.seq, DESCRIBE SPACE.seq, (DESCRIBE) SNAPSHOT snapshot_seq/snapshot_token");
    run.assume("SEARCH is not part of the battery (scores depend on index statistics, documented as grounding only)");
    run.assume("a logical key is held by a Concept in every engine state that keeps the row's `key` column: active, archived, tombstoned, merged, quarantined (clauses.rs remove / merge_concept, governance/element.rs: nothing is erased or copied); a purged Concept is an identity stub without a key (governance/purge.rs stub) and holds none. Whether the key of a purged holder may be claimed again is measured, not asserted");
    run.assume("a committed PURGE removes the recorded versions of the elements its receipt names with op `purge` (documented); whether it removes all of them is C18's subject and only counted here");
    run.assume("hist / keys: the same key under another Concept type, a tuple clause placed in front of the UPSERT whose handle it names (refused: handles of UPSERT are bound in text order), a bare-key UPSERT that finds holders of two types (refused) are documented behaviour and counted");
    run.assume("crash model: each object-store mutation is atomic, the sequence is interruptible anywhere; partial commits at a crash are measured, not asserted (tx.rs documents no write-ahead log)");
    let t = run.tier;
    if run.wants("seq") {
        run.parallel("seq", t.pick(120, 4000), 0.6, |c, rng, st| seq_case(c, rng, st, t.pick(16, 18)));
    }
    if run.wants("spaces") {
        run.parallel("spaces", t.pick(16, 300), 0.2, |c, rng, st| spaces_case(c, rng, st, 24));
    }
    if run.wants("hist") {
        run.parallel("hist", t.pick(36, 150), t.pick(0.3, 0.15), |c, rng, st| hist_case(c, rng, st, t.pick(3, 4)));
    }
    if run.wants("keys") {
        run.parallel("keys", t.pick(52, 260), t.pick(0.3, 0.15), |c, rng, st| keys_case(c, rng, st));
    }
    if run.wants("vis") {
        // every second case has no PREVIEW among the writer's statements: pending rows seen by a
        // reader there would come from a committing or refused statement
        run.parallel("vis", t.pick(64, 240), 0.4, |c, rng, st| vis_case(c, rng, st, t.pick(40, 120), c % 2 == 0));
    }
    if run.wants("crash") {
        run.parallel("crash", t.pick(12, 80), 0.9, |c, rng, st| crash_case(c, rng, st, t.pick(5, 7), t.pick(40, 1500)));
    }
    drain_reports(&mut run);
    run.floor("stmt_committed", 200);
    run.floor("stmt_refused", 200);
    run.floor("stmt_committed_no_effect", 10);
    run.floor("dry_run:option:would_commit", 20);
    run.floor("dry_run:preview:would_commit", 20);
    run.floor("dry_run:option:refused", 5);
    run.floor("multi_clause_statements", 300);
    run.floor("oracle_obs_equal", 300);
    run.floor("oracle_version_delta_named", 500);
    run.floor("oracle_version_log_rows", 200);
    run.floor("oracle_identity_scan", 500);
    run.floor("oracle_burnt_coordinate_reads_as_previous", 100);
    for p in ["first", "middle", "last"] {
        run.floor(&format!("refused_position:{p}"), 25);
    }
    for c in FAIL_CLASSES {
        if c != SAME_TUPLE_TWICE {
            run.floor(&format!("refused_class:{c}"), 3);
        }
    }
    run.floor("oracle_same_tuple_twice_in_one_block_resolves_to_one", 30);
    run.floor("oracle_tuple_clause_resolves_to_its_tuple", 300);
    run.floor("oracle_existing_tuple_resolves_to_the_existing_element", 50);
    for k in ["clause:ensure_hit", "clause:upsert_hit", "clause:upsert_miss", "clause:supersede", "clause:merge", "clause:assert_sugar", "retries_of_identical_request"] {
        run.floor(k, 10);
    }
    // rarer by construction (needs an earlier clause of the block that touched a Concept)
    run.floor("clause:update_again", 6);
    run.floor_set("refusal_class_x_position", 30);
    run.floor("spaces_same_tuple_present_in_both_spaces", 20);
    run.floor("spaces_ensure_hit", 50);
    run.floor("oracle_tuple_resolves_inside_its_space", 100);
    run.floor("vis_reads_overlapping_or_following_a_commit", 50);
    run.floor("vis_writer_commits", 50);
    run.floor("vis_meta_reads_export", 100);
    run.floor("scripted_tuple_clause_through_a_two_hop_merge_chain", 20);
    run.floor("vis_meta_reads_primer", 100);
    // hist: every way of not committing met a PURGE that had passed planning
    for k in HIST_REFUSALS {
        run.floor(&format!("hist_refusal_with_a_viable_purge:{k}"), 2);
    }
    for s in PURGE_SHAPES {
        run.floor(&format!("hist_viable_purge_shape:{s}"), 3);
    }
    run.floor("hist_commit_time_refusals_with_a_viable_purge", 8);
    run.floor("oracle_history_in_depth_unchanged", 35);
    run.floor("history_reads_compared", 3000);
    run.floor("elements_purged_by_committed_statements", 60);
    run.floor_set("hist_purge_shape_x_refusal", 40);
    // keys: every transition, every state that keeps the key, every form of addressing it again
    for tr in KEY_TRANSITIONS {
        run.floor(&format!("keys_transition:{tr}"), 1);
    }
    for s in ["active", "archived", "tombstoned", "merged", "quarantined"] {
        run.floor(&format!("upsert_on_a_key_whose_holder_is:{s}"), 8);
        run.floor(&format!("keys_create_on_a_key_whose_holder_is:{s}"), 5);
    }
    run.floor("keys_holder_state_when_readdressed:no_holder", 1);
    run.floor("keys_host_step:quarantine", 4);
    run.floor("keys_host_step:release", 2);
    run.floor_set("keys_transition_x_form", 100);
    run.floor("oracle_queries_find_at_most_one_holder_of_a_key", 200);
    run.floor("oracle_two_upserts_of_one_key_bind_one_element", 15);
    run.floor("oracle_upsert_on_a_held_key_resolves_to_the_holder", 100);
    run.floor("stmt_committed_in_the_other_space", 20);
    run.floor("crash_prefixes", 100);
    run.floor("crash_reopen_ok", 100);
    run.finish();
}

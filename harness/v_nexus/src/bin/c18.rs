//! C18 - Reading AS OF a past point returns what was current then.
//!
//! Record/replay differential between the live engine (index-driven) and the historical engine
//! (version-log reconstruction): histories of committed statements and schema activations (core
//! only / a test package in two versions whose `reads` predicate turns functional), half of them
//! closed and reopened once; after every commit `s` a battery of queries is executed and recorded;
//! after the next commit and at the end every recorded answer is replayed with `AS OF SEQ s` /
//! `AS OF TX <tx of s>` / `AS OF TIME <committed_at of s>` / in a request bound to the snapshot
//! token of `s`, and must be equal. Plus: the epistemic payload of every Assertion / Evidence is
//! identical in all of its version rows (direct scan of `element_versions`).
//!
//! Section `late_env`: the same monitor over Spaces (the default one or a second one) that commit
//! writes under Core alone BEFORE anything is activated in them, so that the first activation -
//! through `activate_schema`, `ensure_schema` or `install_and_activate` - is a point in the middle
//! of the history: answers recorded under Schema Environment 0 (errors included: a type that did
//! not exist yet is `SchemaSymbolNotFound`, SNAPSHOT / DESCRIBE SCHEMA ENVIRONMENT name version 0)
//! must replay as they were, and every activation in a Space with history takes a coordinate.
//!
//! Section `refused`: "only an explicit purge removes the past". Statements that do not commit -
//! refused while planned, refused by the commit-time validation of the write set, refused for the
//! session's authority, dry runs - with PURGE clauses that pass planning among CREATE / UPDATE /
//! ARCHIVE / TOMBSTONE / MERGE / RETRACT / SUPERSEDE / SET RETENTION clauses: after each of them
//! the recorded answers (a by-id query per element at every coordinate plus part of the battery)
//! are replayed and must be unchanged. One PURGE per case is committed at the end: it may change
//! the past of what it erased and of nothing else.

use anda_cognitive_nexus::governance::{
    AuthContext, SYSTEM_PRINCIPAL,
    rows::{AuthorityScope, principal_class},
    store::{GrantDraft, PrincipalDraft},
};
use anda_cognitive_nexus::nexus::{DEFAULT_SPACE, Session};
use anda_cognitive_nexus::schema::{PackageState, SchemaLock, SchemaPackage};
use anda_cognitive_nexus::{CognitiveNexus, SpaceDraft};
use anda_kip::{Executor, Request};
use object_store::memory::InMemory;
use serde_json::{Map, Value};
use std::collections::{BTreeMap, BTreeSet};
use std::sync::Arc;
use v_nexus::nx1718::*;
use vcore::{Rng, Run, Stats, json};

// ---------------------------------------------------------------------------------------------
// schema environments of a history: the bundled profile alone never changes what a projection
// computes, so a small second package comes in two versions - `reads` is an ordinary predicate
// in 1.0.0 and a functional (single-valued) one in 2.0.0, where support for a rival value
// opposes. A read AS OF a coordinate has to project under the version in force there.

const READS_ID: &str = "kip://test/c18";

fn reads_package(version: &str, functional: bool) -> String {
    format!(
        r#"{{"format": "KIP-Schema-Package", "manifest": {{"package_id": "{READS_ID}", "version": "{version}"}},
            "definitions": {{"predicates": {{"reads": {{"kind": "PredicateType",
            "description": "What somebody is reading. Single-valued from 2.0.0 on.", "functional": {functional}}}}}}}}}"#
    )
}

#[derive(Clone, Copy, PartialEq, Debug)]
enum Env {
    /// no package in force (core symbols only)
    Core,
    /// profile + `reads` as an ordinary predicate
    Plain,
    /// profile + `reads` functional
    Functional,
}

fn lock_of(env: Env) -> SchemaLock {
    let mut lock = match env {
        Env::Core => return SchemaLock::default(),
        _ => profile_lock(),
    };
    lock.packages.insert(READS_ID.to_string(), if env == Env::Plain { "1.0.0" } else { "2.0.0" }.to_string());
    lock.states.insert(READS_ID.to_string(), PackageState::Active);
    lock
}

/// Two rival values of one `reads` slot, each claimed once: under the functional version each
/// claim opposes the other value, under the plain one they coexist.
fn reads_statement(rng: &mut Rng, w: &World) -> Option<Cmd> {
    let subject = w.active_of_type("Person").first().map(|e| e.id.clone())?;
    let others: Vec<String> = World::active(&w.concepts).iter().filter(|c| c.id != subject).map(|c| c.id.clone()).collect();
    if others.len() < 2 {
        return None;
    }
    let o1 = rng.pick(&others).clone();
    let o2 = rng.pick(&others).clone();
    if o1 == o2 {
        return None;
    }
    let by2 = if rng.bool() { subject.clone() } else { o1.clone() };
    let text = format!(
        "MUTATE {{\n  ENSURE PROPOSITION ?g1 (:gs, \"reads\", :go1)\n  ENSURE PROPOSITION ?g2 (:gs, \"reads\", :go2)\n  \
         CREATE ASSERTION ?ga1 {{ SET FIELDS {{proposition: ?g1, asserted_by: {}, stance: \"support\", mode: \"stated\", confidence: 0.{}}} }}\n  \
         CREATE ASSERTION ?ga2 {{ SET FIELDS {{proposition: ?g2, asserted_by: {}, stance: \"support\", mode: \"observed\", confidence: 0.{}}} }}\n}}",
        jstr(&subject), rng.range(1, 9), jstr(&by2), rng.range(1, 9)
    );
    Some(Cmd::new(text).param("gs", json!(subject)).param("go1", json!(o1)).param("go2", json!(o2)))
}

/// Takes an element out of ordinary recall that other elements hang on: a Concept with
/// structural references or one that is an endpoint of active Propositions, or such a
/// Proposition itself. Every pattern family has its own "active only" check in the historical
/// engine; they only matter once connected elements are archived / tombstoned.
fn shelve_statement(rng: &mut Rng, w: &World, sc: &Scan) -> Option<Cmd> {
    let rows = elements(sc);
    let props = World::active(&w.props);
    let mut targets: Vec<String> = World::active(&w.concepts)
        .iter()
        .filter(|c| {
            rows.get(&c.id).map(|r| r["structural"].as_object().map(|m| !m.is_empty()).unwrap_or(false)).unwrap_or(false)
                || props.iter().any(|p| p.subject == c.id || p.object == c.id)
        })
        .map(|c| c.id.clone())
        .collect();
    targets.extend(props.iter().filter(|p| p.typ == "same_as").map(|p| p.id.clone()));
    if targets.is_empty() {
        return None;
    }
    let t = rng.pick(&targets).clone();
    let verb = if rng.chance(3, 4) { "ARCHIVE" } else { "TOMBSTONE" };
    Some(Cmd::new(format!("{verb} {}", jstr(&t))))
}

// ---------------------------------------------------------------------------------------------
// the battery

#[derive(Clone, Debug)]
struct Q {
    family: &'static str,
    /// `FIND(..) WHERE { .. }`
    head: String,
    /// everything after the AS OF position: FOR TIME / WITH EPISTEMIC / ORDER BY / LIMIT / CURSOR
    tail: String,
    params: Map<String, Value>,
    /// row order is part of the answer
    ordered: bool,
    /// top-level members of the answer that name the read coordinate itself (excluded)
    drop_keys: &'static [&'static str],
    /// `space.id` of the request envelope (`None` = the default Space)
    space: Option<String>,
    /// the element a by-id query is about
    about: Option<String>,
}

impl Q {
    fn text(&self, as_of: &str) -> String {
        let mut t = self.head.clone();
        if !as_of.is_empty() {
            t.push(' ');
            t.push_str(as_of);
        }
        if !self.tail.is_empty() {
            t.push(' ');
            t.push_str(&self.tail);
        }
        t
    }
}

/// A stable, readable name of the query shape: the WHERE block and the tail with element ids
/// and other instance data replaced, e.g. `c_concept_id_ID_state_active`.
fn shape_name(qu: &Q) -> String {
    let w = qu.head.split_once("WHERE").map(|x| x.1).unwrap_or(&qu.head);
    if !qu.head.contains("WHERE") {
        return qu.head.replace(' ', "_");
    }
    let proj = if qu.head.contains("COUNT(") || qu.head.contains("MAX(") || qu.head.contains("SUM(") { "agg_" } else { "" };
    let mut text = format!("{w} {}", qu.tail.replace(PIN_TIME, "PIN"));
    for st in ["active", "archived", "tombstoned", "merged"] {
        text = text.replace(&format!("state: \"{st}\""), "state: S");
    }
    let mut out = String::from(proj);
    let mut word = String::new();
    let flush = |word: &mut String, out: &mut String| {
        if word.is_empty() {
            return;
        }
        let is_id = word.len() >= 3 && word.as_bytes()[1] == b'-' && word[2..].chars().all(|c| c.is_ascii_digit());
        let is_inst = word.chars().any(|c| c.is_ascii_digit()) && word.contains('_');
        if !out.is_empty() && !out.ends_with('_') {
            out.push('_');
        }
        out.push_str(if is_id { "ID" } else if is_inst { "X" } else { word.as_str() });
        word.clear();
    };
    for ch in text.chars() {
        if ch.is_ascii_alphanumeric() || ch == '-' || ch == '_' {
            word.push(ch);
        } else {
            flush(&mut word, &mut out);
        }
    }
    flush(&mut word, &mut out);
    out.truncate(90);
    out
}

fn q(family: &'static str, head: impl Into<String>) -> Q {
    Q { family, head: head.into(), tail: String::new(), params: Map::new(), ordered: false, drop_keys: &[], space: None, about: None }
}

impl Q {
    fn tail(mut self, t: impl Into<String>) -> Q {
        self.tail = t.into();
        self.ordered = self.tail.contains("ORDER BY");
        self
    }
    fn drop(mut self, keys: &'static [&'static str]) -> Q {
        self.drop_keys = keys;
        self
    }
    fn p(mut self, k: &str, v: &str) -> Q {
        self.params.insert(k.into(), json!(v));
        self
    }
}

fn for_pin() -> String {
    format!("FOR TIME \"{PIN_TIME}\"")
}

const READS_BELIEF: &str = "FIND(?p.id, ?o.id, ?b.status, ?b.support.score, ?b.opposition.score) WHERE { ?p PROPOSITION (?s, \"reads\", ?o) ?b BELIEF (?p) }";

/// The battery at one coordinate: fixed query shapes, the id-bearing ones instantiated with
/// elements that exist now (seeded choice).
fn battery(w: &World, all: &World, sc: &Scan, rng: &mut Rng) -> Vec<Q> {
    let mut b = vec![
        // element patterns (whole views: every field incl. _system is compared)
        q("element", "FIND(?c) WHERE { ?c CONCEPT {} }"),
        q("element", "FIND(?c.id, ?c.name, ?c.attributes, ?c.facets) WHERE { ?c CONCEPT {type: \"Person\"} }"),
        q("element", "FIND(?c.id, ?c._system.version) WHERE { ?c CONCEPT {type: \"Insight\"} }"),
        q("element", "FIND(?c) WHERE { ?c CONCEPT {state: \"archived\"} }"),
        q("element", "FIND(?c.id, ?c._system) WHERE { ?c CONCEPT {state: \"tombstoned\"} }"),
        q("element", "FIND(?c.id, ?c._system.state) WHERE { ?c CONCEPT {state: \"merged\"} }"),
        q("element", "FIND(?a) WHERE { ?a ASSERTION {} }"),
        q("element", "FIND(?a.id, ?a.lifecycle) WHERE { ?a ASSERTION {status: \"retracted\"} }"),
        q("element", "FIND(?a.id, ?a.lifecycle) WHERE { ?a ASSERTION {status: \"superseded\"} }"),
        q("element", "FIND(?a.id, ?a.confidence) WHERE { ?a ASSERTION {stance: \"support\", mode: \"stated\"} }"),
        q("element", "FIND(?a.id, ?p) WHERE { ?a ASSERTION {proposition: ?p} }"),
        q("element", "FIND(?e) WHERE { ?e EVIDENCE {} }"),
        q("element", "FIND(?e.id, ?e.lifecycle) WHERE { ?e EVIDENCE {status: \"corrected\"} }"),
        q("element", "FIND(?x) WHERE { ?x ACTIVITY {} }"),
        q("element", "FIND(?x.id) WHERE { ?x ACTIVITY {status: \"completed\"} }"),
        q("element", "FIND(?x.id, ?x._system.state) WHERE { ?x ACTIVITY {state: \"archived\"} }"),
        // matcher keys the live engine decides in three different ways: by an index (type, key,
        // name, state, class, status ...), against the rendered view (everything else, and every
        // key once `id` is named), or by binding a variable
        q("element", "FIND(?c.id, ?n, ?s) WHERE { ?c CONCEPT {name: ?n, state: ?s} }"),
        q("element", "FIND(?c.id) WHERE { ?c CONCEPT {type: \"Person\", key: \"\"} }"),
        q("element", "FIND(?a.id) WHERE { ?a ASSERTION {confidence: 0.5} }"),
        q("element", "FIND(?a.id, ?who) WHERE { ?a ASSERTION {asserted_by: ?who, stance: \"reject\"} }"),
        q("element", "FIND(?a.id, ?a.lifecycle.status) WHERE { ?a ASSERTION {state: \"archived\"} }"),
        q("element", "FIND(?e.id) WHERE { ?e EVIDENCE {class: \"user_statement\", status: \"active\"} }"),
        q("element", "FIND(?e.id, ?x) WHERE { ?e EVIDENCE {generated_by: ?x} }"),
        q("element", "FIND(?x.id, ?x.status) WHERE { ?x ACTIVITY {class: \"reflection\"} }"),
        q("element", "FIND(?x.id) WHERE { ?x ACTIVITY {status: \"running\"} }"),
        // tuple patterns
        q("tuple", "FIND(?p) WHERE { ?p PROPOSITION (?s, ?pr, ?o) }"),
        q("tuple", "FIND(?p.id, ?s.name, ?o.name) WHERE { ?p PROPOSITION (?s, \"prefers\", ?o) }"),
        q("tuple", "FIND(?s.id, ?pr, ?o.id) WHERE { (?s, ?pr, ?o) }"),
        q("tuple", "FIND(?x.id, ?y.id) WHERE { (?x, \"prefers\" | \"same_as\", ?y) }"),
        // structural
        q("structural", "FIND(?x.id, ?y.id) WHERE { STRUCTURAL (?x, \"about\", ?y) }"),
        q("structural", "FIND(?x.name, ?y.name) WHERE { STRUCTURAL (?x, \"mentions\", ?y) }"),
        // hop-quantified paths
        q("path", "FIND(?a.id, ?b.id) WHERE { (?a, \"same_as\"{1,3}, ?b) }"),
        q("path", "FIND(?a.id, ?b.id) WHERE { ?a CONCEPT {type: \"Person\"} (?a, \"same_as\"{0,2}, ?b) }"),
        q("path", "FIND(?a.id, ?b.id) WHERE { (?a, \"prefers\"{1,2} | \"same_as\"{2}, ?b) }"),
        // NOT / OPTIONAL / UNION
        q("not_optional_union", "FIND(?c.id) WHERE { ?c CONCEPT {type: \"Person\"} NOT { (?c, \"prefers\", ?x) } }"),
        q("not_optional_union", "FIND(?c.id, ?x.id) WHERE { ?c CONCEPT {type: \"Person\"} OPTIONAL { (?c, \"prefers\", ?x) } }"),
        q("not_optional_union", "FIND(?c.id) WHERE { ?c CONCEPT {type: \"Insight\"} UNION { ?c CONCEPT {type: \"Event\"} } }"),
        q("not_optional_union", "FIND(?a.id) WHERE { ?a ASSERTION {} NOT { ?a ASSERTION {status: \"active\"} } }"),
        // FILTER
        q("filter", "FIND(?c.id, ?c.attributes.note) WHERE { ?c CONCEPT {} FILTER(?c.attributes.note > 40) }"),
        q("filter", "FIND(?c.id) WHERE { ?c CONCEPT {} FILTER(CONTAINS(?c.name, \"1\")) }"),
        q("filter", "FIND(?c.id, ?c._system.version) WHERE { ?c CONCEPT {} FILTER(?c._system.version > 1) }"),
        q("filter", "FIND(?a.id) WHERE { ?a ASSERTION {} FILTER(?a.confidence >= 0.5 && ?a.lifecycle.status == \"active\") }"),
        q("filter", "FIND(?c.id) WHERE { ?c CONCEPT {} FILTER(?c.facets[\"MnemonicState\"].salience > 0.4) }"),
        q("filter", "FIND(?c.id) WHERE { ?c CONCEPT {} FILTER(IS_NOT_NULL(?c.retention.retention_class)) }"),
        // aggregates
        q("aggregate", "FIND(COUNT(?c)) WHERE { ?c CONCEPT {} }"),
        q("aggregate", "FIND(COUNT(?p), COUNT(DISTINCT ?s)) WHERE { ?p PROPOSITION (?s, ?pr, ?o) }"),
        q("aggregate", "FIND(MAX(?a.confidence), MIN(?a.confidence), AVG(?a.confidence)) WHERE { ?a ASSERTION {} }"),
        q("aggregate", "FIND(SUM(?c.attributes.note)) WHERE { ?c CONCEPT {type: \"Person\"} }"),
        q("aggregate", "FIND(COUNT(?e)) WHERE { ?e EVIDENCE {status: \"active\"} }"),
        // ORDER BY + LIMIT (sort keys are unique per row by construction)
        q("order_limit", "FIND(?c.id, ?c.name) WHERE { ?c CONCEPT {} }").tail("ORDER BY ?c.name DESC LIMIT 3"),
        q("order_limit", "FIND(?c.id, ?c._system.version) WHERE { ?c CONCEPT {} }").tail("ORDER BY ?c._system.version DESC, ?c.id ASC LIMIT 4"),
        q("order_limit", "FIND(?a.id, ?a.confidence) WHERE { ?a ASSERTION {} }").tail("ORDER BY ?a.confidence ASC, ?a.id DESC LIMIT 3"),
        q("order_limit", "FIND(?c.id) WHERE { ?c CONCEPT {} }").tail("ORDER BY ?c.id ASC LIMIT 2 CURSOR 2"),
        // BELIEF (world time pinned)
        q("belief", "FIND(?p.id, ?b) WHERE { ?p PROPOSITION (?s, ?pr, ?o) ?b BELIEF (?p) }").tail(for_pin()),
        q("belief", "FIND(?p.id, ?b.status, ?b.support.score, ?b.opposition.score) WHERE { ?p PROPOSITION (?s, \"prefers\", ?o) ?b BELIEF (?p) }")
            .tail("FOR TIME \"2027-01-01T00:00:00Z\""),
        q("belief", "FIND(?p.id, ?b.status) WHERE { ?p PROPOSITION (?s, ?pr, ?o) ?b BELIEF (?p) }")
            .tail(format!("{} WITH EPISTEMIC {{purpose: \"answer_user\", risk: \"low\", include_hypothetical: true, explanation: \"ledger\"}}", for_pin())),
        // a predicate whose definition differs between the schema versions of the history
        q("belief", READS_BELIEF).tail(for_pin()),
        q("tuple", "FIND(?s.id, ?o.id) WHERE { (?s, \"reads\", ?o) }"),
        // META commands that take a coordinate
        q("meta_as_of", "DESCRIBE SCHEMA ENVIRONMENT").drop(&["snapshot_seq"]),
        q("meta_as_of", "SNAPSHOT"),
        q("meta_as_of", "DESCRIBE SNAPSHOT"),
        // FOR TIME on raw assertion rows
        q("for_time", "FIND(?a.id) WHERE { ?a ASSERTION {} }").tail("FOR TIME \"2027-01-01T00:00:00Z\""),
        q("for_time", "FIND(?a.id) WHERE { ?a ASSERTION {} }").tail("FOR TIME \"2032-01-01T00:00:00Z\""),
    ];
    // id-bearing instances
    let pick = |v: &[El], rng: &mut Rng| -> Option<El> { if v.is_empty() { None } else { Some(rng.pick(v).clone()) } };
    if let Some(c) = pick(&all.concepts, rng) {
        b.push(q("element", format!("FIND(?c) WHERE {{ ?c CONCEPT {{id: {}}} }}", jstr(&c.id))));
        b.push(q("element", format!("FIND(?c.id, ?c._system.state) WHERE {{ ?c CONCEPT {{id: {}, state: {}}} }}", jstr(&c.id), jstr(&c.state))));
        // an id together with constraints that may or may not hold for it (the id lookup skips
        // the indexes, the constraints must still decide)
        b.push(q("element", format!("FIND(?c.id) WHERE {{ ?c CONCEPT {{state: \"archived\", id: {}}} }}", jstr(&c.id))));
        b.push(q("element", format!("FIND(?c.id) WHERE {{ ?c CONCEPT {{id: {}, type: \"Person\"}} }}", jstr(&c.id))));
        let rows = elements(sc);
        let name_of = |id: &str| rows.get(id).and_then(|r| r["name"].as_str()).unwrap_or("").to_string();
        let other = pick(&all.concepts, rng).map(|o| name_of(&o.id)).unwrap_or_default();
        if !other.is_empty() {
            // `other` is this Concept's own name in about 1 of n cases
            b.push(q("element", format!("FIND(?c.id) WHERE {{ ?c CONCEPT {{id: {}, name: {}}} }}", jstr(&c.id), jstr(&other))));
            b.push(q("element", format!("FIND(?c.id, ?c._system.version) WHERE {{ ?c CONCEPT {{name: {}}} }}", jstr(&other))));
        }
        b.push(q("tuple", "FIND(?p.id, ?o) WHERE { ?p PROPOSITION (:s, ?pr, ?o) }").p("s", &c.id));
        b.push(q("structural", "FIND(?y.id) WHERE { STRUCTURAL (:x, \"about\", ?y) }").p("x", &c.id));
        b.push(q("path", "FIND(?b.id) WHERE { (:a, \"same_as\"{1,3}, ?b) }").p("a", &c.id));
        b.push(q("belief_slot", "FIND(?slot) WHERE { ?slot BELIEF SLOT (:c, \"prefers\") }").p("c", &c.id).tail(for_pin()));
        b.push(q("belief_slot", "FIND(?slot) WHERE { ?slot BELIEF SLOT (:c, \"same_as\") }").p("c", &c.id).tail(for_pin()));
    }
    if let Some(c) = all.concepts.iter().find(|c| c.typ == "Person") {
        // the subject `reads_statement` uses while it is active
        b.push(q("belief_slot", "FIND(?slot) WHERE { ?slot BELIEF SLOT (:c, \"reads\") }").p("c", &c.id).tail(for_pin()));
    }
    if let Some(c) = all.concepts.iter().find(|c| !c.key.is_empty()) {
        b.push(q("element", format!("FIND(?c.id, ?c.name) WHERE {{ ?c CONCEPT {{type: {}, key: {}}} }}", jstr(&c.typ), jstr(&c.key))));
    }
    if let Some(p) = pick(&all.props, rng) {
        b.push(q("tuple", format!("FIND(?p, ?s.id) WHERE {{ ?p PROPOSITION (id: {}) }}", jstr(&p.id)).replace(", ?s.id", "")));
        b.push(q("belief", format!("FIND(?b) WHERE {{ ?b BELIEF (id: {}) }}", jstr(&p.id))).tail(for_pin()));
        b.push(q("element", format!("FIND(?a.id, ?a.stance) WHERE {{ ?a ASSERTION {{proposition: {}}} }}", jstr(&p.id))));
        if !p.subject.is_empty() && !p.object.is_empty() {
            b.push(q("belief", "FIND(?b.status, ?b.support) WHERE { ?b BELIEF (:s, :pr, :o) }")
                .p("s", &p.subject).p("pr", &p.typ).p("o", &p.object).tail(for_pin()));
            b.push(q("tuple", "FIND(?p.id) WHERE { ?p PROPOSITION (:s, :pr, :o) }").p("s", &p.subject).p("pr", &p.typ).p("o", &p.object));
        }
    }
    if let (Some(a), Some(c)) = (pick(&w.concepts, rng), pick(&w.concepts, rng)) {
        // a tuple that was (most likely) never stored: BELIEF answers `insufficient`, not zero rows
        b.push(q("belief", "FIND(?b.status) WHERE { ?b BELIEF (:s, \"same_as\", :o) }").p("s", &a.id).p("o", &c.id).tail(for_pin()));
    }
    if let Some(a) = pick(&all.assertions, rng) {
        b.push(q("element", format!("FIND(?a) WHERE {{ ?a ASSERTION {{id: {}}} }}", jstr(&a.id))));
        b.push(q("element", format!("FIND(?a.id) WHERE {{ ?a ASSERTION {{id: {}, status: \"active\", stance: \"support\"}} }}", jstr(&a.id))));
    }
    if let Some(e) = pick(&all.evidence, rng) {
        b.push(q("element", format!("FIND(?e) WHERE {{ ?e EVIDENCE {{id: {}}} }}", jstr(&e.id))));
        b.push(q("element", format!("FIND(?e.id) WHERE {{ ?e EVIDENCE {{id: {}, status: \"corrected\"}} }}", jstr(&e.id))));
    }
    b
}

/// every element of the default Space regardless of state (the id-bearing queries also target
/// archived / tombstoned / merged ones)
fn world_all(scan: &Scan) -> World {
    let mut w = world_of(scan);
    w.foreign_concept = None;
    w
}

fn world_active(w: &World) -> World {
    let f = |v: &Vec<El>| v.iter().filter(|e| e.state == "active").cloned().collect();
    World {
        concepts: f(&w.concepts),
        props: f(&w.props),
        assertions: f(&w.assertions),
        evidence: f(&w.evidence),
        activities: f(&w.activities),
        foreign_concept: None,
    }
}

// ---------------------------------------------------------------------------------------------
// answers and their comparison

/// marks the fourth way of naming a coordinate: the request envelope's `read.snapshot_token`
const TOKEN_FORM: &str = "\u{1}snapshot_token:";

fn shown(qu: &Q, as_of: &str) -> String {
    match as_of.strip_prefix(TOKEN_FORM) {
        Some(token) => format!("{}   [request envelope: read.snapshot_token = {token}]", qu.text("")),
        None => qu.text(as_of),
    }
}

/// The query as written (no AS OF) in a request bound to a snapshot token.
async fn ask_bound(nexus: &CognitiveNexus, qu: &Q, token: &str) -> Result<Result<Value, String>, String> {
    let mut envelope = json!({
        "kip": "2.0",
        "read": {"snapshot_token": token},
        "operations": [{"command": qu.text(""), "parameters": Value::Object(qu.params.clone())}],
    });
    if let Some(sp) = &qu.space {
        envelope["space"] = json!({"id": sp});
    }
    let request: Request = serde_json::from_value(envelope).map_err(|e| format!("request envelope: {e}"))?;
    let parsed = request.operations[0].parse().map_err(|e| format!("battery query does not parse: {}: {}", e.name(), e.message))?;
    let response = nexus.execute(parsed, &request, &request.operations[0]).await;
    let raw = serde_json::to_value(&response).map_err(|e| format!("response encode: {e}"))?;
    Ok(if raw["status"] == "succeeded" {
        let mut r = raw["results"][0]["result"].clone();
        if qu.tail.contains("LIMIT") {
            r = json!({"rows": r, "next_cursor": raw["results"][0]["next_cursor"]});
        }
        Ok(r)
    } else {
        let err = if raw["error"].is_object() { &raw["error"] } else { &raw["results"][0]["error"] };
        Err(err["code"].as_str().unwrap_or("").to_string())
    })
}

/// `Ok(payload)` or `Err(error code)`; only the operation result payload is an answer.
async fn ask(nexus: &CognitiveNexus, qu: &Q, as_of: &str) -> Result<Result<Value, String>, String> {
    if let Some(token) = as_of.strip_prefix(TOKEN_FORM) {
        return ask_bound(nexus, qu, token).await;
    }
    let mut cmd = Cmd::new(qu.text(as_of));
    cmd.params = qu.params.clone();
    cmd.space = qu.space.clone();
    let o = exec(&Via::System(nexus), &cmd).await?;
    if let Some(p) = o.parse_error {
        return Err(format!("battery query does not parse: {p}: {}", cmd.text));
    }
    Ok(if o.succeeded {
        let mut r = o.result;
        if let Some(m) = r.as_object_mut() {
            for k in qu.drop_keys {
                m.remove(*k);
            }
        }
        if qu.tail.contains("LIMIT") {
            // a paged answer is its window and the cursor that continues it
            r = json!({"rows": r, "next_cursor": o.raw["results"][0]["next_cursor"]});
        }
        Ok(r)
    } else {
        Err(o.error_code)
    })
}

/// Numbers are compared to 12 significant digits: an aggregate over floats depends on the order
/// in which the rows are summed, which no query fixes.
fn round_floats(v: &Value) -> Value {
    match v {
        Value::Number(n) if n.is_f64() => {
            let f = n.as_f64().unwrap_or(0.0);
            json!(format!("{f:.11e}"))
        }
        Value::Array(a) => Value::Array(a.iter().map(round_floats).collect()),
        Value::Object(m) => Value::Object(m.iter().map(|(k, v)| (k.clone(), round_floats(v))).collect()),
        x => x.clone(),
    }
}

/// rows present on one side only (multiset difference by canonical text), for the detail JSON
fn row_diff(a: &Result<Value, String>, b: &Result<Value, String>) -> Value {
    let (Ok(Value::Array(a)), Ok(Value::Array(b))) = (a, b) else {
        return Value::Null;
    };
    let mut left: Vec<String> = a.iter().map(canon).collect();
    let mut right: Vec<String> = vec![];
    for r in b.iter().map(canon) {
        if let Some(i) = left.iter().position(|x| *x == r) {
            left.remove(i);
        } else {
            right.push(r);
        }
    }
    let cut = |v: Vec<String>| -> Vec<String> {
        v.into_iter().take(3).map(|s| if s.len() > 1800 { format!("{}...", &s[..s.char_indices().take_while(|(i, _)| *i < 1800).last().map(|x| x.0).unwrap_or(0)]) } else { s }).collect()
    };
    json!({"rows_only_in_recorded": cut(left), "rows_only_in_replayed": cut(right)})
}

fn deep_sort(v: &Value) -> Value {
    match v {
        Value::Array(a) => {
            let mut a: Vec<Value> = a.iter().map(deep_sort).collect();
            a.sort_by_key(canon);
            Value::Array(a)
        }
        Value::Object(m) => Value::Object(m.iter().map(|(k, v)| (k.clone(), deep_sort(v))).collect()),
        x => x.clone(),
    }
}

#[derive(PartialEq, Debug)]
enum Cmp {
    Equal,
    /// equal once array order is ignored where it carries no meaning
    OrderOnly,
    /// equal to 12 significant digits
    FloatRounding,
    Different,
}

/// Where order carries no meaning: the row sequence of a query without ORDER BY, and - for the
/// BELIEF families only - the lists inside a projection object (ledger id lists, the candidates
/// of a slot), which follow the engine's candidate enumeration order. The column order inside a
/// row and every list inside an element view (aliases, supersedes, structural references ...)
/// are part of the answer and compared as they are.
fn normalize(v: &Value, ordered: bool, loose_inside: bool) -> Value {
    let inside = |x: &Value| if loose_inside { deep_sort(x) } else { x.clone() };
    match v {
        Value::Array(rows) => {
            let mut rows: Vec<Value> = rows
                .iter()
                .map(|row| match row {
                    Value::Array(cols) => Value::Array(cols.iter().map(inside).collect()),
                    other => inside(other),
                })
                .collect();
            if !ordered {
                rows.sort_by_key(canon);
            }
            Value::Array(rows)
        }
        other => inside(other),
    }
}

/// Paths (indices stripped) of the lists that differ as sequences but not as multisets.
fn reordered_lists(a: &Value, b: &Value, path: &str, out: &mut BTreeSet<String>) {
    match (a, b) {
        (Value::Array(x), Value::Array(y)) if x.len() == y.len() => {
            let key = |v: &Value| canon(&deep_sort(v));
            let (mut ox, mut oy): (Vec<&Value>, Vec<&Value>) = (x.iter().collect(), y.iter().collect());
            if !ox.iter().zip(&oy).all(|(p, q)| key(p) == key(q)) {
                ox.sort_by_key(|v| key(v));
                oy.sort_by_key(|v| key(v));
                if !ox.iter().zip(&oy).all(|(p, q)| key(p) == key(q)) {
                    return;
                }
                out.insert(if path.is_empty() { "<rows>".to_string() } else { path.to_string() });
            }
            for (p, q) in ox.into_iter().zip(oy) {
                reordered_lists(p, q, &format!("{path}[]"), out);
            }
        }
        (Value::Object(x), Value::Object(y)) => {
            for (k, vx) in x {
                if let Some(vy) = y.get(k) {
                    reordered_lists(vx, vy, &if path.is_empty() { k.clone() } else { format!("{path}.{k}") }, out);
                }
            }
        }
        _ => {}
    }
}

/// The first place (path, recorded, replayed) where two normalized answers differ.
fn first_difference(a: &Value, b: &Value, path: &str) -> Option<Value> {
    match (a, b) {
        (Value::Array(x), Value::Array(y)) if x.len() == y.len() => x.iter().zip(y).enumerate().find_map(|(i, (p, q))| first_difference(p, q, &format!("{path}[{i}]"))),
        (Value::Object(x), Value::Object(y)) if x.keys().eq(y.keys()) => x.iter().find_map(|(k, p)| first_difference(p, &y[k], &format!("{path}.{k}"))),
        _ if canon(a) == canon(b) => None,
        _ => Some(json!({"at": path, "recorded": clip(&canon(a)), "replayed": clip(&canon(b))})),
    }
}

fn explain_difference(live: &Result<Value, String>, replay: &Result<Value, String>, qu: &Q) -> Value {
    let (Ok(a), Ok(b)) = (live, replay) else {
        return Value::Null;
    };
    let loose_inside = matches!(qu.family, "belief" | "belief_slot");
    first_difference(&normalize(a, qu.ordered, loose_inside), &normalize(b, qu.ordered, loose_inside), "").unwrap_or(Value::Null)
}

fn compare(live: &Result<Value, String>, replay: &Result<Value, String>, qu: &Q) -> Cmp {
    // float aggregates (SUM / AVG) and projection scores depend on the order the rows were
    // folded in, which no query fixes
    let floats_free = matches!(qu.family, "aggregate" | "belief" | "belief_slot");
    let loose_inside = matches!(qu.family, "belief" | "belief_slot");
    match (live, replay) {
        (Err(a), Err(b)) => {
            if a == b { Cmp::Equal } else { Cmp::Different }
        }
        (Ok(a), Ok(b)) => {
            if canon(a) == canon(b) {
                return Cmp::Equal;
            }
            if floats_free && canon(&round_floats(a)) == canon(&round_floats(b)) {
                return Cmp::FloatRounding;
            }
            let norm = |v: &Value| normalize(v, qu.ordered, loose_inside);
            if canon(&norm(a)) == canon(&norm(b)) {
                Cmp::OrderOnly
            } else if floats_free && canon(&norm(&round_floats(a))) == canon(&norm(&round_floats(b))) {
                Cmp::FloatRounding
            } else {
                Cmp::Different
            }
        }
        _ => Cmp::Different,
    }
}

struct Recorded {
    seq: u64,
    tx_id: String,
    committed_at: String,
    /// what kind of commit produced the coordinate
    kinds: Vec<&'static str>,
    qs: Vec<(Q, Result<Value, String>)>,
}

// ---------------------------------------------------------------------------------------------
// payload immutability (direct scan of the version log)

const ASSERTION_PAYLOAD: [&str; 12] = [
    "proposition_id", "asserted_by", "asserted_by_key", "stance", "mode", "confidence", "asserted_at",
    "valid_from", "valid_until", "evidence_refs", "evidence_ids", "context_refs",
];
const EVIDENCE_PAYLOAD: [&str; 10] = [
    "evidence_class", "payload_mode", "payload_inline", "content_ref", "content_digest", "media_type",
    "observed_at", "source_refs", "source_keys", "generated_by",
];

fn check_payloads(scan: &Scan, st: &mut Stats, ctx: &dyn Fn() -> Value) {
    let mut per: BTreeMap<String, Vec<&Value>> = BTreeMap::new();
    for r in scan["element_versions"].values() {
        let el = r["element"].as_str().unwrap_or("");
        if el.starts_with("A-") || el.starts_with("E-") {
            per.entry(el.to_string()).or_default().push(r);
        }
    }
    let cur = elements(scan);
    for (el, rows) in per {
        let fields: &[&str] = if el.starts_with("A-") { &ASSERTION_PAYLOAD } else { &EVIDENCE_PAYLOAD };
        let pay = |row: &Value| -> String { canon(&Value::Array(fields.iter().map(|f| row[*f].clone()).collect())) };
        let first = pay(&rows[0]["row"]);
        st.count("oracle_payload_immutable");
        if rows.len() > 1 {
            st.count("payload_checked_over_several_versions");
        }
        let mut all: Vec<String> = rows.iter().map(|r| pay(&r["row"])).collect();
        if let Some(c) = cur.get(&el) {
            if c["state"] != "purged" {
                all.push(pay(c));
            }
        }
        if all.iter().any(|p| *p != first) {
            report_once(st, "C18/payload/epistemic_payload_differs_between_versions", || {
                json!({"element": el, "payloads": all, "fields": fields, "context": ctx()})
            });
        }
    }
}

// ---------------------------------------------------------------------------------------------
// the shape of a history

/// A second Space of the same Nexus: a history may live there instead of in the default one.
const SECOND_SPACE: &str = "kip:space:c18";

#[derive(Clone, Debug)]
struct Shape {
    section: &'static str,
    /// the Space the history lives in
    space: String,
    /// the Space commits writes under Core alone (Schema Environment 0) BEFORE anything is
    /// activated in it: the first activation is a point in the middle of its history
    late: bool,
    /// the host API every activation inside the history goes through
    entry: &'static str,
}

impl Shape {
    fn standard() -> Shape {
        Shape { section: "hist", space: DEFAULT_SPACE.to_string(), late: false, entry: "activate_schema" }
    }
    fn space_opt(&self) -> Option<String> {
        if self.space == DEFAULT_SPACE { None } else { Some(self.space.clone()) }
    }
}

/// The scan as seen from `space`: the shared fixtures (`world_of`, `space_seq`, the journal
/// filters) look at the default Space, so for a history that lives in another Space the two
/// names are exchanged in the copy the harness reads.
fn relabel(mut sc: Scan, space: &str) -> Scan {
    if space == DEFAULT_SPACE {
        return sc;
    }
    for (c, rows) in sc.iter_mut() {
        let field = if *c == "spaces" { "space_id" } else { "space" };
        for row in rows.values_mut() {
            let cur = row.get(field).and_then(|v| v.as_str()).map(|s| s.to_string());
            match cur.as_deref() {
                Some(s) if s == space => row[field] = json!(DEFAULT_SPACE),
                Some(s) if s == DEFAULT_SPACE => row[field] = json!("<the default Space>"),
                _ => {}
            }
        }
    }
    sc
}

async fn scan_in(nexus: &CognitiveNexus, space: &str) -> Result<Scan, String> {
    Ok(relabel(scan(nexus).await?, space))
}

/// the Schema Environment version the Space row names (after `relabel`)
fn env_version(sc: &Scan) -> u64 {
    sc.get("spaces")
        .and_then(|m| m.values().find(|r| r["space_id"] == DEFAULT_SPACE).and_then(|r| r["schema_environment_version"].as_u64()))
        .unwrap_or(0)
}

async fn read_in(nexus: &CognitiveNexus, text: &str, space: &Option<String>) -> Result<Value, String> {
    let mut cmd = Cmd::new(text);
    cmd.space = space.clone();
    let o = exec(&Via::System(nexus), &cmd).await?;
    if let Some(p) = o.parse_error {
        return Err(format!("HARNESS-PARSE {p}"));
    }
    if o.succeeded { Ok(o.result) } else { Err(o.error_code) }
}

async fn install_profile(nexus: &CognitiveNexus) -> Result<(), String> {
    let pkg = SchemaPackage::parse(anda_cognitive_nexus::profiles::COGNITIVE_MEMORY).map_err(|e| format!("{e:?}"))?;
    nexus.install_package(&pkg, "verif").await.map_err(|e| format!("install profile: {e:?}"))?;
    Ok(())
}

/// One activation through one of the three host entry points (they all end in
/// `Store::activate_schema`; the artifacts are installed already, installing again is a no-op).
async fn activate(nexus: &CognitiveNexus, space: &str, to: Env, entry: &str) -> Result<(), String> {
    let r = match entry {
        "ensure_schema" => nexus.ensure_schema(space, lock_of(to)).await.map(|_| ()),
        "install_and_activate" => {
            let reads = reads_package(if to == Env::Plain { "1.0.0" } else { "2.0.0" }, to == Env::Functional);
            let artifacts: Vec<(&str, &str)> = match to {
                Env::Core => vec![],
                _ => vec![("verif", anda_cognitive_nexus::profiles::COGNITIVE_MEMORY), ("verif", reads.as_str())],
            };
            nexus.install_and_activate(&artifacts, space).await.map(|_| ())
        }
        _ => nexus.activate_schema(space, lock_of(to)).await.map(|_| ()),
    };
    r.map_err(|e| format!("{entry}: {e:?}"))
}

/// A statement that Core alone can carry: raw Evidence, Activities and their lifecycle (no
/// Concept type, no predicate exists before a profile is activated).
fn core_statement(rng: &mut Rng, g: &mut Gen, w: &World) -> Stmt {
    let ev: Vec<&El> = w.evidence.iter().filter(|e| e.state == "active" && e.status == "active").collect();
    let xs: Vec<&El> = w.activities.iter().filter(|x| x.state == "active" && (x.status == "pending" || x.status == "running")).collect();
    let shelvable: Vec<&El> = w.evidence.iter().chain(w.activities.iter()).filter(|e| e.state == "active" || e.state == "archived").collect();
    let mut clauses: Vec<(&'static str, String)> = vec![];
    match rng.below(7) {
        0 if !ev.is_empty() => {
            let e = rng.pick(&ev).id.clone();
            let h = format!("c{}", g.next());
            clauses.push(("create_evidence", format!("CREATE EVIDENCE ?{h} {{ SET FIELDS {{evidence_class: \"user_statement\", payload: {}}} }}", jstr(&g.name("fix")))));
            clauses.push(("correct", format!("CORRECT EVIDENCE {} BY ?{h}", jstr(&e))));
        }
        1 if !xs.is_empty() => {
            let x = rng.pick(&xs).id.clone();
            let to = *rng.pick(&["running", "completed", "failed"]);
            clauses.push(("transition", format!("TRANSITION ACTIVITY {} TO {}", jstr(&x), jstr(to))));
        }
        2 if !shelvable.is_empty() => {
            let e = rng.pick(&shelvable).id.clone();
            if rng.chance(2, 3) {
                clauses.push(("archive", format!("ARCHIVE {}", jstr(&e))));
            } else {
                clauses.push(("tombstone", format!("TOMBSTONE {}", jstr(&e))));
            }
        }
        3 if !shelvable.is_empty() => {
            let e = rng.pick(&shelvable).id.clone();
            clauses.push(("set_retention", format!("SET RETENTION {} {{ retention_class: \"standard\", expires_at: \"203{}-01-01T00:00:00Z\" }}", jstr(&e), rng.below(9))));
        }
        _ => {}
    }
    if clauses.is_empty() || rng.bool() {
        let (eh, xh) = (format!("e{}", g.next()), format!("x{}", g.next()));
        let with_x = rng.bool();
        let mut body = format!("SET FIELDS {{evidence_class: \"user_statement\", payload: {}}}", jstr(&g.name("payload")));
        if with_x {
            body.push_str(&format!(" SET STRUCTURAL {{ (\"generated_by\", ?{xh}) }}"));
        }
        clauses.push(("create_evidence", format!("CREATE EVIDENCE ?{eh} {{ {body} }}")));
        if with_x {
            let cls = *rng.pick(&["reflection", "semantic_consolidation", "tool_execution"]);
            let status = if rng.chance(1, 4) { ", status: \"completed\"" } else { "" };
            clauses.push(("create_activity", format!("CREATE ACTIVITY ?{xh} {{ SET FIELDS {{activity_class: {}{status}}} SET STRUCTURAL {{ (\"outputs\", ?{eh}) }} }}", jstr(cls))));
        }
    }
    let text = if clauses.len() == 1 && rng.bool() {
        clauses[0].1.clone()
    } else {
        format!("MUTATE {{\n  {}\n}}", clauses.iter().map(|c| c.1.as_str()).collect::<Vec<_>>().join("\n  "))
    };
    Stmt { cmd: Cmd::new(text), kinds: clauses.iter().map(|c| c.0).collect(), fail: None, dry: "none", restricted: false, retry_of_previous: false }
}

/// mutation kinds of a commit, from the receipt's change list
fn kinds_of_changes(out: &Outcome) -> Vec<&'static str> {
    let mut ks: Vec<&'static str> = vec![];
    for (id, op, _) in out.changes() {
        let kind = match (op.as_str(), &id[..1]) {
            ("create", "C") => "create_concept",
            ("create", "P") => "create_proposition",
            ("create", "A") => "create_assertion",
            ("create", "E") => "create_evidence",
            ("create", "X") => "create_activity",
            ("update", "P") => "update_proposition",
            ("update", _) => "update_concept",
            ("archive", _) => "archive",
            ("tombstone", _) => "tombstone",
            ("retract", _) => "retract",
            ("supersede", _) => "supersede",
            ("merge", _) => "merge",
            ("set_retention", _) => "set_retention",
            ("transition", _) => "transition",
            ("correct", _) => "correct_evidence",
            ("purge", _) => "purge",
            _ => "other",
        };
        ks.push(kind);
    }
    ks
}

// ---------------------------------------------------------------------------------------------

fn hist_case(case: u64, rng: &mut Rng, st: &mut Stats, n_commits: usize, mid_replays: usize, shape: &Shape) {
    set_case(shape.section, case);
    let r = vcore::run::block_on(hist_case_async(case, rng, st, n_commits, mid_replays, shape));
    if let Err(e) = r {
        st.inconclusive(format!("C18 {}: harness trouble: {e}", shape.section));
    }
}

#[allow(clippy::too_many_arguments)]
async fn replay_one(
    nexus: &CognitiveNexus,
    rec: &Recorded,
    form: &'static str,
    as_of: &str,
    since: &BTreeSet<&'static str>,
    only: Option<&BTreeSet<usize>>,
    // queries already reported as different under another AS OF form at this coordinate
    known_diff: Option<&BTreeSet<usize>>,
    // a signature of its own instead of `C18/replay/<family>/<shape>/<form>`
    sig: Option<&str>,
    st: &mut Stats,
    ctx: &dyn Fn() -> Value,
) -> Result<BTreeSet<usize>, String> {
    let mut differing = BTreeSet::new();
    for (i, (qu, live)) in rec.qs.iter().enumerate() {
        if only.map(|o| !o.contains(&i)).unwrap_or(false) {
            continue;
        }
        let got = ask(nexus, qu, as_of).await?;
        st.eval();
        st.count(&format!("replayed:{form}"));
        st.count(&format!("replayed_family:{}", qu.family));
        st.set("replayed_query_x_form", vcore::fnv_str(&format!("{}{}{form}", qu.head, qu.tail)));
        for k in since {
            st.count(&format!("replayed_after:{k}"));
        }
        if let (Ok(_), Err(code)) = (live, &got) {
            if code == "UnsupportedCapability" {
                st.count(&format!("replay_refused_as_unsupported:{}", qu.family));
                continue;
            }
        }
        if let (Err(code), Ok(_)) = (live, &got) {
            if code == "InternalError" {
                // the live engine failed internally where the historical engine answers: the two
                // engines disagree, but not about the past - own signature, not a replay diff
                let (qu, got) = (qu.clone(), got.clone());
                report_once(st, &format!("C18/live_engine_internal_error_where_historical_engine_answers/{}", shape_name(&qu)), || {
                    json!({"what": "the query failed with InternalError when its coordinate was the present; the same query AS OF that coordinate answers",
                           "query_live": qu.text(""), "query_replayed": shown(&qu, as_of), "parameters": qu.params,
                           "replayed": got.as_ref().map(|v| clip(&canon(v))).map_err(|e| e.clone()), "context": ctx()})
                });
                continue;
            }
        }
        match compare(live, &got, qu) {
            Cmp::Equal => {
                st.count("replay_equal");
                if let Err(code) = live {
                    // an answer that was an error when its coordinate was the present replays as
                    // the same error
                    st.count(&format!("replay_equal_error_answers:{code}"));
                }
            }
            Cmp::OrderOnly => {
                st.count(&format!("replay_differs_in_unordered_positions_only:{}", qu.family));
                if let (Ok(a), Ok(b)) = (live, &got) {
                    let mut at = BTreeSet::new();
                    reordered_lists(a, b, "", &mut at);
                    for p in at {
                        st.count(&format!("reordered_list_tolerated:{}:{p}", qu.family));
                    }
                }
            }
            Cmp::FloatRounding => st.count(&format!("replay_differs_in_float_rounding_only:{}", qu.family)),
            Cmp::Different if known_diff.map(|k| k.contains(&i)).unwrap_or(false) => {
                st.count("replay_difference_already_reported_under_AS_OF_SEQ");
            }
            Cmp::Different => {
                differing.insert(i);
                let (qu, live, got) = (qu.clone(), live.clone(), got.clone());
                let since: Vec<&str> = since.iter().copied().collect();
                let signature = sig.map(|x| x.to_string()).unwrap_or_else(|| format!("C18/replay/{}/{}/{form}", qu.family, shape_name(&qu)));
                report_once(st, &signature, || {
                    json!({"what": "the answer AS OF a past coordinate differs from the answer recorded when that coordinate was current",
                           "query": shown(&qu, as_of), "parameters": qu.params, "recorded_at_seq": rec.seq,
                           "recorded": live.as_ref().map(|v| clip(&canon(v))).map_err(|e| e.clone()),
                           "replayed": got.as_ref().map(|v| clip(&canon(v))).map_err(|e| e.clone()),
                           "row_difference": row_diff(&live, &got),
                           "first_difference_after_normalization": explain_difference(&live, &got, &qu),
                           "mutation_kinds_since": since, "context": ctx()})
                });
            }
        }
    }
    Ok(differing)
}

/// The end of a history: every coordinate, every recorded query, every way of naming the
/// coordinate; coordinate 0 is the empty Space.
async fn final_replay(nexus: &CognitiveNexus, recorded: &[Recorded], sc: &Scan, space: &Option<String>, rng: &mut Rng, st: &mut Stats, cx: &dyn Fn() -> Value) -> Result<(), String> {
    let journal: Vec<(u64, String)> = sc["transactions"].values().filter(|r| r["space"] == DEFAULT_SPACE)
        .map(|r| (r["seq"].as_u64().unwrap_or(0), r["committed_at"].as_str().unwrap_or("").to_string())).collect();
    for i in 0..recorded.len() {
        let rec = &recorded[i];
        let since: BTreeSet<&'static str> = recorded[i + 1..].iter().flat_map(|r| r.kinds.iter().copied()).collect();
        st.count("coordinates_replayed_at_the_end");
        let diff = replay_one(nexus, rec, "SEQ", &format!("AS OF SEQ {}", rec.seq), &since, None, None, None, st, cx).await?;
        // TX and TIME resolve to the same coordinate; a seeded third of the battery each
        let sub: BTreeSet<usize> = (0..rec.qs.len()).filter(|_| rng.chance(1, 3)).collect();
        replay_one(nexus, rec, "TX", &format!("AS OF TX {}", jstr(&rec.tx_id)), &since, Some(&sub), Some(&diff), None, st, cx).await?;
        // AS OF TIME names the last commit at or before the instant: usable when no later
        // journal row carries the same (or an earlier) timestamp
        let unique = journal.iter().all(|(s, at)| *s <= rec.seq || at.as_str() > rec.committed_at.as_str())
            && journal.iter().all(|(s, at)| *s >= rec.seq || at.as_str() <= rec.committed_at.as_str());
        if unique && !rec.committed_at.is_empty() {
            let sub: BTreeSet<usize> = (0..rec.qs.len()).filter(|_| rng.chance(1, 3)).collect();
            replay_one(nexus, rec, "TIME", &format!("AS OF TIME {}", jstr(&rec.committed_at)), &since, Some(&sub), Some(&diff), None, st, cx).await?;
        } else {
            st.count("as_of_time_skipped_equal_commit_timestamps");
        }
        // the token SNAPSHOT AS OF SEQ s hands out binds a whole request to s (KQL only)
        match read_in(nexus, &format!("SNAPSHOT AS OF SEQ {}", rec.seq), space).await {
            Ok(snap) if snap["snapshot_token"].is_string() => {
                let sub: BTreeSet<usize> = (0..rec.qs.len()).filter(|i| rec.qs[*i].0.family != "meta_as_of" && rng.chance(1, 5)).collect();
                let form = format!("{TOKEN_FORM}{}", snap["snapshot_token"].as_str().unwrap_or(""));
                replay_one(nexus, rec, "TOKEN", &form, &since, Some(&sub), Some(&diff), None, st, cx).await?;
            }
            other => report_once(st, "C18/snapshot_as_of_issues_no_token", || json!({"seq": rec.seq, "answer": format!("{other:?}"), "context": cx()})),
        }
    }
    // coordinate 0 is the empty Space, whatever happened later
    for mut qu in [q("element", "FIND(?c) WHERE { ?c CONCEPT {} }"), q("tuple", "FIND(?p) WHERE { ?p PROPOSITION (?s, ?pr, ?o) }"), q("aggregate", "FIND(COUNT(?a)) WHERE { ?a ASSERTION {} }"),
                   q("element", "FIND(?e) WHERE { ?e EVIDENCE {} }")] {
        qu.space = space.clone();
        let got = ask(nexus, &qu, "AS OF SEQ 0").await?;
        st.count("replayed:SEQ0");
        let ok = match &got {
            Ok(v) => v.as_array().map(|a| a.is_empty() || a == &vec![json!(0)]).unwrap_or(false),
            Err(_) => false,
        };
        if !ok {
            report_once(st, "C18/replay/coordinate_zero_not_empty", || json!({"query": qu.text("AS OF SEQ 0"), "answer": format!("{got:?}"), "context": cx()}));
        }
    }
    Ok(())
}

async fn hist_case_async(case: u64, rng: &mut Rng, st: &mut Stats, n_commits: usize, mid_replays: usize, shape: &Shape) -> Result<(), String> {
    let disk: Arc<dyn object_store::ObjectStore> = Arc::new(InMemory::new());
    let db_name = if shape.section == "hist" { format!("c18_{case}") } else { format!("c18_{}_{case}", shape.section) };
    let mut nexus = open_nexus(disk.clone(), &db_name).await?;
    let space = shape.space.clone();
    let space_opt = shape.space_opt();
    if space_opt.is_some() {
        nexus.store.open_or_create_space(SpaceDraft { space_id: space.clone(), name: "second".into(), owner_principal: SYSTEM_PRINCIPAL.into(), ..Default::default() })
            .await.map_err(|e| format!("create Space: {e:?}"))?;
    }
    install_profile(&nexus).await?;
    if !shape.late {
        // the ordinary bootstrap: the profile is activated on the empty Space (documented: the
        // first activation of a Space without history is where it starts, not a point of it)
        nexus.activate_schema(&space, profile_lock()).await.map_err(|e| format!("{e:?}"))?;
    }
    // half of the histories are closed and reopened once: the past must not live in caches
    let reopen_at = if rng.bool() { Some(2 + rng.usize(n_commits.saturating_sub(4).max(1))) } else { None };
    let mut g = Gen { uid: 0, tag: format!("h{case}") };
    let spaced = rng.chance(2, 3); // keep commit timestamps apart (workload shaping only)
    for (v, f) in [("1.0.0", false), ("2.0.0", true)] {
        let pkg = SchemaPackage::parse(&reads_package(v, f)).map_err(|e| format!("reads package: {e:?}"))?;
        nexus.install_package(&pkg, "verif").await.map_err(|e| format!("install reads package: {e:?}"))?;
    }
    let mut env = if rng.bool() { Env::Plain } else { Env::Functional };
    if shape.late {
        env = Env::Core;
    } else {
        nexus.activate_schema(&space, lock_of(env)).await.map_err(|e| format!("activate_schema: {e:?}"))?;
    }
    let with_schema_events = rng.chance(1, 2) || shape.late;
    // late: the first activation of the Space comes after 1..=3 commits under Core alone
    let mut first_activation_at = if shape.late { Some(1 + rng.usize(3)) } else { None };
    let mut core_only_left = 0usize;
    let mut recorded: Vec<Recorded> = vec![];
    let mut history: Vec<Value> = vec![];
    let mut attempts = 0;
    let mut kinds_seen: BTreeSet<&'static str> = BTreeSet::new();
    let mut reopened = false;
    while recorded.len() < n_commits && attempts < n_commits * 3 {
        attempts += 1;
        if reopen_at == Some(recorded.len()) && !reopened {
            reopened = true;
            nexus.close().await.map_err(|e| format!("close: {e:?}"))?;
            nexus = open_nexus(disk.clone(), &db_name).await?;
            st.count("history_reopens");
            history.push(json!({"host": "close + CognitiveNexus::connect on the same object store"}));
        }
        let sc = scan_in(&nexus, &space).await?;
        let w = world_of(&sc);
        let seq_before = space_seq(&sc);
        // --- one history step: a KML statement or a schema activation
        let (seq, tx_id, committed_at, kinds): (u64, String, String, Vec<&'static str>);
        let schema_step = match first_activation_at {
            Some(k) => recorded.len() >= k,
            None => with_schema_events && recorded.len() >= 2 && (core_only_left == 1 || (core_only_left == 0 && rng.chance(1, 6))),
        };
        if schema_step {
            let first_after_writes = first_activation_at.take().is_some();
            let to = match env {
                Env::Core => if rng.bool() { Env::Plain } else { Env::Functional },
                Env::Plain => if rng.chance(2, 3) { Env::Functional } else { Env::Core },
                Env::Functional => if rng.chance(1, 2) { Env::Plain } else { Env::Core },
            };
            let to_core = to == Env::Core;
            let version_before = env_version(&sc);
            activate(&nexus, &space, to, shape.entry).await?;
            env = to;
            core_only_left = if to_core { 1 + rng.usize(2) + 1 } else { 0 };
            let sc2 = scan_in(&nexus, &space).await?;
            let s = space_seq(&sc2);
            st.count(&format!("schema_activations_via:{}", shape.entry));
            if first_after_writes {
                st.count("first_activations_after_committed_writes");
                st.count(&format!("first_activation_after_committed_writes_via:{}", shape.entry));
                st.count(if space_opt.is_some() { "first_activation_after_committed_writes_in:second_space" } else { "first_activation_after_committed_writes_in:default_space" });
            }
            // "An activation is a transaction like any other" (store/history.rs; tests/history.rs:
            // a later activation has a real history coordinate): in a Space that has committed
            // writes the state before and the state after an activation are two points
            let row = sc2["transactions"].values().find(|r| r["seq"].as_u64() == Some(s) && r["space"] == DEFAULT_SPACE).cloned();
            st.count("oracle_activation_is_a_point_of_the_history");
            if seq_before > 0 && (s <= seq_before || row.is_none()) {
                let (entry, hist2) = (shape.entry, history.clone());
                report_once(st, "C18/activation/no_coordinate_of_its_own_in_a_space_with_history", || {
                    json!({"what": "the Space had committed writes; the activation changed its Schema Environment and left it at the same sequence: one coordinate, two environments",
                           "host_api": entry, "first_activation_of_the_space": first_after_writes, "space_seq_before": seq_before, "space_seq_after": s,
                           "schema_environment_version_before": version_before, "schema_environment_version_after": env_version(&sc2),
                           "journal_row_at_the_new_sequence": row.is_some(), "case": case, "history": hist2})
                });
                history.push(json!({"host": shape.entry, "lock": format!("{to:?}"), "seq": s, "note": "took no coordinate of its own"}));
                continue;
            }
            let row = row.ok_or("activation left no journal row")?;
            seq = s;
            tx_id = row["tx_id"].as_str().unwrap_or("").to_string();
            committed_at = row["committed_at"].as_str().unwrap_or("").to_string();
            let mut ks = match to {
                Env::Core => vec!["schema_activation_core_only"],
                Env::Plain => vec!["schema_activation_profile", "schema_activation_reads_plain"],
                Env::Functional => vec!["schema_activation_profile", "schema_activation_reads_functional"],
            };
            if first_after_writes {
                ks.push("first_activation_after_committed_writes");
            }
            kinds = ks;
            history.push(json!({"host": shape.entry, "lock": format!("{to:?}"), "seq": s}));
        } else {
            if core_only_left > 1 {
                core_only_left -= 1;
            }
            let mut stmt = if shape.late && env == Env::Core && rng.chance(3, 4) { core_statement(rng, &mut g, &w) } else { gen_stmt(rng, &mut g, &w, None, &CFG_C18) };
            if env != Env::Core && rng.chance(1, 5) {
                if let Some(cmd) = reads_statement(rng, &w) {
                    stmt.cmd = cmd;
                    stmt.kinds = vec![if env == Env::Functional { "reads_claims_functional" } else { "reads_claims_plain" }];
                }
            } else if rng.chance(1, 8) {
                if let Some(cmd) = shelve_statement(rng, &w, &sc) {
                    stmt.cmd = cmd;
                    stmt.kinds = vec!["shelve_connected_element"];
                }
            }
            stmt.cmd.space = space_opt.clone();
            let out = exec(&Via::System(&nexus), &stmt.cmd).await?;
            history.push(json!({"cmd": stmt.cmd.describe(),
                "outcome": if out.committed() { format!("{}@{}", out.receipt_status, out.space_seq.unwrap_or(0)) } else { format!("refused:{}", out.error_code) }}));
            if !out.committed() {
                st.count("history_statements_refused");
                // a refusal that leaves something behind is C17's finding; it would make this
                // history something other than a sequence of whole commits
                if masked(&scan_in(&nexus, &space).await?) != masked(&sc) {
                    st.count(&format!("history_abandoned_refused_statement_changed_state(C17):{}", out.error_code));
                    return Ok(());
                }
                continue;
            }
            if out.receipt_status != "committed" {
                st.count("history_statements_no_effect");
            }
            seq = out.space_seq.unwrap();
            tx_id = out.tx_id.clone().unwrap_or_default();
            committed_at = out.committed_at.clone().unwrap_or_default();
            // the kinds that really changed something, from the receipt's change list
            let mut ks = kinds_of_changes(&out);
            for k in &stmt.kinds {
                if matches!(*k, "update_again" | "update_sweep" | "upsert_hit" | "assert_sugar" | "reads_claims_functional" | "reads_claims_plain" | "shelve_connected_element") {
                    ks.push(k);
                }
            }
            kinds = ks;
        }
        st.count("history_commits");
        for k in &kinds {
            st.count(&format!("commit_kind:{k}"));
            kinds_seen.insert(k);
        }
        // --- record the battery at this coordinate
        let sc = scan_in(&nexus, &space).await?;
        if space_seq(&sc) != seq {
            return Err(format!("space counter {} is not the commit sequence {seq}", space_seq(&sc)));
        }
        if env_version(&sc) == 0 {
            st.count("coordinates_recorded_under_schema_environment_0");
        }
        let all = world_all(&sc);
        let act = world_active(&all);
        let mut qs = vec![];
        for mut qu in battery(&act, &all, &sc, rng) {
            qu.space = space_opt.clone();
            let a = ask(&nexus, &qu, "").await?;
            st.count("battery_recorded");
            st.count(&format!("recorded_family:{}", qu.family));
            if let Err(code) = &a {
                st.count(&format!("battery_recorded_error_answers:{code}"));
            }
            if qu.head == READS_BELIEF {
                if let Ok(Value::Array(rows)) = &a {
                    let rivals = rows.iter().filter(|r| r[4].as_f64().unwrap_or(0.0) > 0.0).count() as u64;
                    st.add(&format!("recorded_reads_beliefs_opposed_by_a_rival_value:{env:?}"), rivals);
                    st.add(&format!("recorded_reads_beliefs:{env:?}"), rows.len() as u64);
                }
            }
            qs.push((qu, a));
        }
        recorded.push(Recorded { seq, tx_id, committed_at, kinds, qs });
        let hist2 = history.clone();
        let cx = move || json!({"case": case, "history": hist2});
        check_payloads(&sc, st, &cx);
        if spaced {
            std::thread::sleep(std::time::Duration::from_micros(1200));
        }
        // --- replay a few earlier coordinates now (the one just before is the sharpest)
        let n = recorded.len();
        if n >= 2 {
            let mut targets: BTreeSet<usize> = BTreeSet::new();
            targets.insert(n - 2);
            for _ in 0..mid_replays {
                targets.insert(rng.usize(n - 1));
            }
            for i in targets {
                let since: BTreeSet<&'static str> = recorded[i + 1..].iter().flat_map(|r| r.kinds.iter().copied()).collect();
                let rec = &recorded[i];
                st.count("coordinates_replayed_after_a_later_commit");
                // quick tier: a seeded half of the battery here (all of it at the end)
                let sub: Option<BTreeSet<usize>> = if mid_replays == 0 { Some((0..rec.qs.len()).filter(|_| rng.bool()).collect()) } else { None };
                replay_one(&nexus, rec, "SEQ", &format!("AS OF SEQ {}", rec.seq), &since, sub.as_ref(), None, None, st, &cx).await?;
            }
        }
    }
    // --- the end: every coordinate, every query, every form
    let sc = scan_in(&nexus, &space).await?;
    let hist2 = history.clone();
    let cx = move || json!({"case": case, "history": hist2});
    final_replay(&nexus, &recorded, &sc, &space_opt, rng, st, &cx).await?;
    check_payloads(&sc, st, &cx);
    if recorded.len() >= n_commits / 2 && kinds_seen.len() >= 6 {
        st.distinct(vcore::hash_debug(&history));
    }
    st.max("max_commits_in_a_history", recorded.len() as u64);
    st.sample(|| json!({"monitor": "record/replay", "section": shape.section, "case": case, "commits": recorded.len(),
        "kinds": kinds_seen, "first_statements": history.iter().take(4).collect::<Vec<_>>()}));
    Ok(())
}

// ---------------------------------------------------------------------------------------------
// refused statements, dry runs and the one statement that may remove the past
//
// "Only an explicit purge removes the past": a statement that was REFUSED - while it was planned,
// by the commit-time validation of its write set, by the session's authority - or that was a dry
// run is not a purge, whatever clauses it contained. Small histories; at every coordinate a part
// of the battery plus one by-id query per element is recorded; then statements that cannot commit
// are executed (generated blocks mixing CREATE / UPDATE / ARCHIVE / MERGE / RETRACT / SUPERSEDE
// ... with PURGE clauses that pass planning and one clause that refuses), and after each of them
// the recorded answers are replayed. At the end one PURGE is committed: it may change the past of
// the elements it erased, and of nothing else.

const OTHER_SPACE: &str = "kip:space:other";
const RESTRICTED: &str = "kip:principal:restricted";
const CFG_BODY: GenCfg = GenCfg { fail_pct: 0, dry_pct: 0, restricted: false, retries: false, no_effect: false, commit_time_failures: false };

fn by_id_queries(all: &World) -> Vec<Q> {
    let mut v = vec![];
    let groups: [(&[El], &str); 5] = [
        (&all.concepts, "FIND(?c) WHERE { ?c CONCEPT {id: @@} }"),
        (&all.props, "FIND(?p) WHERE { ?p PROPOSITION (id: @@) }"),
        (&all.assertions, "FIND(?a) WHERE { ?a ASSERTION {id: @@} }"),
        (&all.evidence, "FIND(?e) WHERE { ?e EVIDENCE {id: @@} }"),
        (&all.activities, "FIND(?x) WHERE { ?x ACTIVITY {id: @@} }"),
    ];
    for (els, shape) in groups {
        for e in els {
            let mut x = q("by_id", shape.replace("@@", &jstr(&e.id)));
            x.about = Some(e.id.clone());
            v.push(x);
        }
    }
    v
}

/// `MUTATE {\n  c1\n  c2\n}` (the generator's layout: one clause per line) or one bare clause
fn clauses_of(text: &str) -> Vec<String> {
    match text.strip_prefix("MUTATE {\n") {
        Some(rest) => rest.lines().map(|l| l.trim().to_string()).filter(|l| !l.is_empty() && l != "}").collect(),
        None => vec![text.to_string()],
    }
}

struct Refusal {
    cmd: Cmd,
    /// why the statement cannot commit
    class: &'static str,
    /// "planning" | "commit" | "session" | "dry_run"
    when: &'static str,
    /// PURGE clauses that pass planning stand in the block ...
    purges: usize,
    /// ... in front of the clause that refuses (commit-time classes: the position is irrelevant)
    purge_first: bool,
    restricted: bool,
    body_kinds: Vec<&'static str>,
}

fn legal_hold(row: &Value) -> bool {
    row["retention"]["legal_hold"].as_bool().unwrap_or(false)
}

/// A statement that cannot commit in the current state, or a dry run.
fn gen_refusal(rng: &mut Rng, g: &mut Gen, w: &World, sc: &Scan) -> Refusal {
    let rows = elements(sc);
    let texts: BTreeMap<String, String> = rows.iter().map(|(id, r)| (id.clone(), canon(r))).collect();
    let referenced = |id: &str| -> bool {
        let needle = jstr(id);
        texts.iter().any(|(other, t)| other != id && t.contains(&needle))
    };
    let every: Vec<&El> = w.concepts.iter().chain(&w.props).chain(&w.assertions).chain(&w.evidence).chain(&w.activities).collect();
    let held: Vec<&El> = every.iter().copied().filter(|e| rows.get(&e.id).map(|r| legal_hold(r)).unwrap_or(false) && e.state != "purged").collect();
    let active_concepts = World::active(&w.concepts);

    let when = *rng.pick(&["planning", "planning", "planning", "commit", "commit", "commit", "commit", "session", "dry_run", "dry_run"]);
    // --- the body: what an ordinary statement would do
    let base = gen_stmt(rng, g, w, None, &CFG_BODY);
    let mut params = base.cmd.params.clone();
    let mut body: Vec<String> = clauses_of(&base.cmd.text);
    let mut body_kinds = base.kinds.clone();
    let preview = when == "dry_run" && rng.bool();
    if when == "session" || (preview && !params.is_empty()) || rng.chance(1, 5) {
        body.clear();
        body_kinds.clear();
        params.clear();
    }
    // explicit lifecycle clauses next to whatever the generator planned: the block then mixes
    // ARCHIVE / TOMBSTONE / MERGE / UPDATE / RETRACT / SET RETENTION with the PURGE clauses
    if when != "session" {
        let named = |body: &Vec<String>, id: &str| body.iter().any(|c| c.contains(&jstr(id))) || params.values().any(|v| v.as_str() == Some(id));
        for _ in 0..rng.weighted(&[25, 40, 35]) {
            let free: Vec<&El> = active_concepts.iter().copied().filter(|c| !named(&body, &c.id) && !held.iter().any(|h| h.id == c.id)).collect();
            let claims: Vec<&El> = w.assertions.iter().filter(|a| a.state == "active" && a.status == "active" && !named(&body, &a.id)).collect();
            match rng.below(6) {
                0 | 1 if free.len() >= 2 => {
                    let (a, b) = (*rng.pick(&free), *rng.pick(&free));
                    if a.id != b.id {
                        body.push(format!("MERGE CONCEPT {} INTO {}", jstr(&a.id), jstr(&b.id)));
                        body_kinds.push("merge");
                    }
                }
                2 if !free.is_empty() => {
                    let e = *rng.pick(&free);
                    let verb = if rng.bool() { "ARCHIVE" } else { "TOMBSTONE" };
                    body.push(format!("{verb} {}", jstr(&e.id)));
                    body_kinds.push(if verb == "ARCHIVE" { "archive" } else { "tombstone" });
                }
                3 if !claims.is_empty() => {
                    body.push(format!("RETRACT ASSERTION {}", jstr(&rng.pick(&claims).id)));
                    body_kinds.push("retract");
                }
                4 if !free.is_empty() => {
                    body.push(format!("SET RETENTION {} {{ retention_class: \"standard\", expires_at: \"2035-01-01T00:00:00Z\" }}", jstr(&rng.pick(&free).id)));
                    body_kinds.push("set_retention");
                }
                _ if !free.is_empty() => {
                    body.push(format!("UPDATE {} SET ATTRIBUTES {{note: {}}}", jstr(&rng.pick(&free).id), rng.below(1000)));
                    body_kinds.push("update_concept");
                }
                _ => {}
            }
        }
    }
    let body_text = body.join("\n");
    let body_ids: BTreeSet<String> = params.values().filter_map(|v| v.as_str().map(|s| s.to_string())).collect();
    let untouched = |id: &str| !body_text.contains(&jstr(id)) && !body_ids.contains(id);

    // --- PURGE clauses that pass planning
    let mut purge_clauses: Vec<String> = vec![];
    let n_purges = if matches!(when, "session" | "dry_run") { 1 + rng.usize(2) } else { rng.weighted(&[20, 55, 25]) };
    let candidates: Vec<&El> = every.iter().copied()
        .filter(|e| matches!(e.state.as_str(), "active" | "archived" | "tombstoned") && !held.iter().any(|h| h.id == e.id) && untouched(&e.id))
        .collect();
    for _ in 0..n_purges {
        if candidates.is_empty() {
            break;
        }
        let e = *rng.pick(&candidates);
        if purge_clauses.iter().any(|c| c.contains(&jstr(&e.id))) {
            continue;
        }
        let form = rng.below(10);
        let clause = if form == 0 && !preview {
            params.insert(format!("victim{}", purge_clauses.len()), json!(e.id));
            format!("PURGE :victim{} REFERENCE POLICY \"tombstone_reference\" CONFIRM \"PURGE\"", purge_clauses.len())
        } else if form == 1 && w.active_of_type("Insight").iter().any(|c| untouched(&c.id)) && purge_clauses.is_empty() {
            format!("PURGE ?victim WHERE {{ ?victim CONCEPT {{type: \"Insight\"}} }} LIMIT {} REFERENCE POLICY \"tombstone_reference\" CONFIRM \"PURGE\"", rng.range(1, 3))
        } else if form <= 3 {
            // erases the dependents too (refused on its own account when one of them is held)
            format!("PURGE {} REFERENCE POLICY \"authorized_cascade\" CONFIRM \"PURGE\"", jstr(&e.id))
        } else if !referenced(&e.id) && rng.bool() {
            format!("PURGE {} CONFIRM \"PURGE\"", jstr(&e.id))
        } else {
            format!("PURGE {} REFERENCE POLICY \"tombstone_reference\" CONFIRM \"PURGE\"", jstr(&e.id))
        };
        purge_clauses.push(clause);
    }

    // --- the clause(s) that refuse
    let uid = g.next();
    let mut class: &'static str;
    let mut failing: Vec<String> = vec![];
    match when {
        "planning" => {
            let pick = *rng.pick(&["unknown_type", "missing_id", "expect_version", "expect_state", "constraint", "immutable_field", "purge_denied", "purge_denied", "legal_hold", "legal_hold", "bad_policy", "unbound_param"]);
            class = pick;
            match pick {
                "missing_id" => failing.push(rng.pick(&["UPDATE \"C-99999\" SET ATTRIBUTES {x: 1}", "RETRACT ASSERTION \"A-99999\"", "ARCHIVE \"E-99999\"", "PURGE \"C-99999\" CONFIRM \"PURGE\""]).to_string()),
                "expect_version" if !active_concepts.is_empty() => {
                    let e = *rng.pick(&active_concepts);
                    failing.push(format!("UPDATE {} EXPECT VERSION {} SET ATTRIBUTES {{x: 1}}", jstr(&e.id), e.version + 2 + rng.below(4)));
                }
                "expect_state" if !active_concepts.is_empty() => {
                    let e = *rng.pick(&active_concepts);
                    failing.push(format!("ARCHIVE {} EXPECT STATE \"tombstoned\"", jstr(&e.id)));
                }
                "constraint" => failing.push(format!("CREATE CONCEPT ?y{uid} {{ TYPE \"Insight\" NAME \"no summary\" }}")),
                "immutable_field" if !active_concepts.is_empty() => {
                    let e = *rng.pick(&active_concepts);
                    failing.push(format!("UPDATE {} SET FIELDS {{key: \"moved\"}}", jstr(&e.id)));
                }
                "purge_denied" => {
                    // the default policy refuses while anything points at the target
                    let ends: Vec<String> = World::active(&w.props).iter().flat_map(|p| [p.subject.clone(), p.object.clone()]).filter(|id| !id.is_empty()).collect();
                    if !ends.is_empty() {
                        failing.push(format!("PURGE {} CONFIRM \"PURGE\"", jstr(rng.pick(&ends).as_str())));
                    }
                }
                "legal_hold" if held.iter().any(|h| untouched(&h.id)) => {
                    // (a SET RETENTION of the body on the same element would lift the hold first)
                    let still: Vec<&El> = held.iter().copied().filter(|h| untouched(&h.id)).collect();
                    let h = *rng.pick(&still);
                    let policy = *rng.pick(&["", " REFERENCE POLICY \"tombstone_reference\""]);
                    failing.push(format!("PURGE {}{policy} CONFIRM \"PURGE\"", jstr(&h.id)));
                }
                "bad_policy" if !candidates.is_empty() => failing.push(format!("PURGE {} REFERENCE POLICY \"delete_everything\" CONFIRM \"PURGE\"", jstr(&rng.pick(&candidates).id))),
                "unbound_param" => failing.push(format!("UPDATE :unbound{uid} SET ATTRIBUTES {{x: 1}}")),
                _ => {}
            }
            if failing.is_empty() {
                class = "unknown_type";
                failing.push(format!("CREATE CONCEPT ?z{uid} {{ TYPE \"Spaceship\" NAME \"Enterprise\" }}"));
            }
        }
        "commit" => {
            // decided over the whole write set, after every clause was planned
            let keyed: Vec<&El> = active_concepts.iter().copied().filter(|c| !c.key.is_empty() && untouched(&c.id)).collect();
            let pick = rng.below(10);
            if pick < 4 && !keyed.is_empty() {
                class = "key_held_by_another_concept";
                let e = *rng.pick(&keyed);
                failing.push(if rng.chance(3, 4) {
                    format!("CREATE CONCEPT ?k{uid} {{ TYPE {} NAME \"dup\" SET FIELDS {{key: {}}} }}", jstr(&e.typ), jstr(&e.key))
                } else {
                    // an UPSERT whose own MATCH misses (another type's key) cannot claim ... the
                    // plain duplicate is the documented conflict; keep to CREATE with attributes
                    format!("CREATE CONCEPT ?k{uid} {{ TYPE {} NAME \"dup\" SET FIELDS {{key: {}}} SET ATTRIBUTES {{note: 1}} }}", jstr(&e.typ), jstr(&e.key))
                });
            } else if pick < 7 || w.foreign_concept.is_none() || preview {
                class = "one_key_twice_in_the_block";
                let k = g.name("kd");
                let typ = *rng.pick(&["Preference", "Person"]);
                failing.push(format!("CREATE CONCEPT ?k{uid}a {{ TYPE {} NAME \"first\" SET FIELDS {{key: {}}} }}", jstr(typ), jstr(&k)));
                failing.push(format!("CREATE CONCEPT ?k{uid}b {{ TYPE {} NAME \"second\" SET FIELDS {{key: {}}} }}", jstr(typ), jstr(&k)));
            } else {
                class = "reference_into_another_space";
                params.insert(format!("foreign{uid}"), json!(w.foreign_concept.clone().unwrap_or_default()));
                failing.push(format!("CREATE CONCEPT ?f{uid} {{ TYPE \"Insight\" NAME \"leaky\" SET ATTRIBUTES {{summary: \"s\"}} SET STRUCTURAL {{ (\"about\", :foreign{uid}) }} }}"));
            }
        }
        "session" => {
            class = "session_without_the_purge_permission";
            if rng.bool() {
                body.push(format!("CREATE CONCEPT ?own{uid} {{ TYPE \"Person\" NAME {} }}", jstr(&g.name("own"))));
                body_kinds.push("create_concept");
            }
        }
        _ => {
            class = if preview { "preview_kml" } else { "dry_run_option" };
        }
    }

    // --- assembly: the PURGE clauses go in front of the refusing clause two times out of three
    let purge_first = when == "commit" || rng.chance(2, 3);
    let mut clauses: Vec<String> = body;
    rng.shuffle(&mut clauses);
    let last_failing = failing.pop();
    let has_fail = last_failing.is_some();
    let mut at_fail = clauses.len();
    if let Some(f) = last_failing {
        at_fail = rng.usize(clauses.len() + 1);
        clauses.insert(at_fail, f);
        for f in failing {
            let at = rng.usize(at_fail + 1);
            clauses.insert(at, f);
            at_fail += 1;
        }
    }
    let purges = purge_clauses.len();
    for p in purge_clauses {
        let at = if !has_fail {
            rng.usize(clauses.len() + 1)
        } else if purge_first {
            rng.usize(at_fail + 1)
        } else {
            at_fail + 1 + rng.usize(clauses.len() - at_fail)
        };
        clauses.insert(at.min(clauses.len()), p);
        if has_fail && at <= at_fail {
            at_fail += 1;
        }
    }
    if clauses.is_empty() {
        clauses.push(format!("CREATE CONCEPT ?z{uid} {{ TYPE \"Spaceship\" NAME \"Enterprise\" }}"));
        class = "unknown_type";
    }
    let text = if clauses.len() == 1 && rng.bool() { clauses[0].clone() } else { format!("MUTATE {{\n  {}\n}}", clauses.join("\n  ")) };
    let mut cmd = Cmd::new(text);
    cmd.params = params;
    if when == "dry_run" {
        if preview {
            let inner = cmd.text.clone();
            cmd = Cmd::new("PREVIEW KML :kml").param("kml", json!(inner));
        } else {
            cmd.dry_run = true;
        }
    }
    Refusal { cmd, class, when, purges, purge_first, restricted: when == "session", body_kinds }
}

fn refused_case(case: u64, rng: &mut Rng, st: &mut Stats, n_commits: usize, n_refusals: usize) {
    set_case("refused", case);
    let r = vcore::run::block_on(refused_case_async(case, rng, st, n_commits, n_refusals));
    if let Err(e) = r {
        st.inconclusive(format!("C18 refused: harness trouble: {e}"));
    }
}

/// Records a seeded part of the battery and one by-id query per element at the current point.
async fn record_point(nexus: &CognitiveNexus, out: &Outcome, kinds: Vec<&'static str>, rng: &mut Rng, st: &mut Stats) -> Result<Recorded, String> {
    let sc = scan(nexus).await?;
    let seq = out.space_seq.unwrap_or(0);
    if space_seq(&sc) != seq {
        return Err(format!("space counter {} is not the commit sequence {seq}", space_seq(&sc)));
    }
    let all = world_all(&sc);
    let act = world_active(&all);
    let mut qs = vec![];
    let part: Vec<Q> = battery(&act, &all, &sc, rng).into_iter().filter(|_| rng.chance(1, 3)).collect();
    for qu in part.into_iter().chain(by_id_queries(&all)) {
        let a = ask(nexus, &qu, "").await?;
        st.count("battery_recorded");
        st.count(&format!("recorded_family:{}", qu.family));
        if let Err(code) = &a {
            st.count(&format!("battery_recorded_error_answers:{code}"));
        }
        qs.push((qu, a));
    }
    st.count("history_commits");
    for k in &kinds {
        st.count(&format!("commit_kind:{k}"));
    }
    std::thread::sleep(std::time::Duration::from_micros(1200));
    Ok(Recorded { seq, tx_id: out.tx_id.clone().unwrap_or_default(), committed_at: out.committed_at.clone().unwrap_or_default(), kinds, qs })
}

async fn refused_case_async(case: u64, rng: &mut Rng, st: &mut Stats, n_commits: usize, n_refusals: usize) -> Result<(), String> {
    let disk: Arc<dyn object_store::ObjectStore> = Arc::new(InMemory::new());
    let nexus = open_nexus(disk, &format!("c18_refused_{case}")).await?;
    activate_profile(&nexus).await?;
    let gov = nexus.governance();
    gov.ensure_principal(PrincipalDraft {
        principal_id: RESTRICTED.into(),
        principal_class: principal_class::AGENT.to_string(),
        display_name: "restricted".into(),
        auth_provider: "verif".into(),
        auth_subject: "restricted".into(),
    })
    .await
    .map_err(|e| format!("{e:?}"))?;
    // may read, create and update anything - and may not purge, archive or merge
    gov.create_grant(
        GrantDraft {
            space_id: DEFAULT_SPACE.into(),
            grantee_principal: RESTRICTED.into(),
            actions: vec!["read".into(), "create".into(), "update".into()],
            scope: AuthorityScope::default(),
            ..Default::default()
        },
        SYSTEM_PRINCIPAL,
    )
    .await
    .map_err(|e| format!("{e:?}"))?;
    nexus.store.open_or_create_space(SpaceDraft { space_id: OTHER_SPACE.into(), name: "other".into(), owner_principal: SYSTEM_PRINCIPAL.into(), ..Default::default() })
        .await.map_err(|e| format!("{e:?}"))?;
    nexus.activate_schema(OTHER_SPACE, profile_lock()).await.map_err(|e| format!("{e:?}"))?;
    let mut c = Cmd::new("CREATE CONCEPT ?f { TYPE \"Person\" NAME \"foreigner\" }");
    c.space = Some(OTHER_SPACE.into());
    if !exec(&Via::System(&nexus), &c).await?.committed() {
        return Err("seeding the other Space failed".into());
    }
    let restricted: Session = nexus.session(AuthContext::principal(RESTRICTED));

    let mut g = Gen { uid: 0, tag: format!("r{case}") };
    let mut recorded: Vec<Recorded> = vec![];
    let mut history: Vec<Value> = vec![];
    // --- a scripted opening: keyed Concepts (holders for the commit-time key conflict),
    // referenced and unreferenced elements of every kind, an element under a legal hold; every
    // element gets a second version so that its past is more than one row
    let t = g.tag.clone();
    let open1 = format!(
        "MUTATE {{\n  CREATE CONCEPT ?p1 {{ TYPE \"Person\" NAME \"p1{t}\" SET FIELDS {{key: \"k1{t}\"}} }}\n  \
         CREATE CONCEPT ?p2 {{ TYPE \"Person\" NAME \"p2{t}\" SET FIELDS {{key: \"k2{t}\"}} SET ATTRIBUTES {{note: 7}} }}\n  \
         CREATE CONCEPT ?pf {{ TYPE \"Preference\" NAME \"pf{t}\" SET FIELDS {{key: \"k3{t}\"}} }}\n  \
         CREATE CONCEPT ?i1 {{ TYPE \"Insight\" NAME \"i1{t}\" SET ATTRIBUTES {{summary: \"first draft\"}} }}\n  \
         CREATE CONCEPT ?i2 {{ TYPE \"Insight\" NAME \"i2{t}\" SET ATTRIBUTES {{summary: \"about p1\"}} SET STRUCTURAL {{ (\"about\", ?p1) }} }}\n  \
         CREATE CONCEPT ?hv {{ TYPE \"Event\" NAME \"hv{t}\" SET ATTRIBUTES {{summary: \"kept for the lawyers\"}} }}\n  \
         ENSURE PROPOSITION ?q (?p1, \"prefers\", ?pf)\n  \
         CREATE EVIDENCE ?e1 {{ SET FIELDS {{evidence_class: \"user_statement\", payload: \"e1{t}\"}} }}\n  \
         CREATE EVIDENCE ?e2 {{ SET FIELDS {{evidence_class: \"user_statement\", payload: \"e2{t}\"}} }}\n  \
         CREATE ASSERTION ?a1 {{ SET FIELDS {{proposition: ?q, asserted_by: ?p1, stance: \"support\", mode: \"stated\", confidence: 0.7}} SET STRUCTURAL {{ (\"evidence\", ?e1) {{role: \"support\"}} }} }}\n  \
         CREATE ACTIVITY ?x1 {{ SET FIELDS {{activity_class: \"reflection\"}} }}\n}}"
    );
    let o1 = exec(&Via::System(&nexus), &Cmd::new(open1.clone())).await?;
    if !o1.committed() {
        return Err(format!("scripted opening refused: {} {}", o1.error_code, o1.error_message));
    }
    history.push(json!({"cmd": open1, "outcome": format!("committed@{}", o1.space_seq.unwrap_or(0))}));
    let h = |n: &str| o1.handle(n).ok_or(format!("no handle {n}"));
    let (i1, i2, hv, p2) = (h("i1")?, h("i2")?, h("hv")?, h("p2")?);
    recorded.push(record_point(&nexus, &o1, kinds_of_changes(&o1), rng, st).await?);
    let open2 = format!(
        "MUTATE {{\n  UPDATE {} SET ATTRIBUTES {{summary: \"second draft\", note: 5}}\n  UPDATE {} SET FIELDS {{name: \"i2{t}, revised\"}}\n  \
         UPDATE {} SET ATTRIBUTES {{note: 8}}\n  SET RETENTION {} {{ legal_hold: true }}\n}}",
        jstr(&i1), jstr(&i2), jstr(&p2), jstr(&hv)
    );
    let o2 = exec(&Via::System(&nexus), &Cmd::new(open2.clone())).await?;
    if !o2.committed() {
        return Err(format!("scripted second statement refused: {} {}", o2.error_code, o2.error_message));
    }
    history.push(json!({"cmd": open2, "outcome": format!("committed@{}", o2.space_seq.unwrap_or(0))}));
    recorded.push(record_point(&nexus, &o2, kinds_of_changes(&o2), rng, st).await?);
    // --- a few generated commits
    let mut attempts = 0;
    while recorded.len() < n_commits && attempts < n_commits * 3 {
        attempts += 1;
        let sc = scan(&nexus).await?;
        let w = world_of(&sc);
        let stmt = gen_stmt(rng, &mut g, &w, None, &CFG_C18);
        let out = exec(&Via::System(&nexus), &stmt.cmd).await?;
        history.push(json!({"cmd": stmt.cmd.describe(),
            "outcome": if out.committed() { format!("{}@{}", out.receipt_status, out.space_seq.unwrap_or(0)) } else { format!("refused:{}", out.error_code) }}));
        if !out.committed() {
            continue;
        }
        recorded.push(record_point(&nexus, &out, kinds_of_changes(&out), rng, st).await?);
    }
    // --- statements that cannot commit, and dry runs
    let mut ended_early = false;
    for _ in 0..n_refusals {
        let sc = scan(&nexus).await?;
        let w = world_of(&sc);
        let r = gen_refusal(rng, &mut g, &w, &sc);
        let via = if r.restricted { Via::Session(&restricted) } else { Via::System(&nexus) };
        let out = exec(&via, &r.cmd).await?;
        if let Some(p) = &out.parse_error {
            return Err(format!("generated statement does not parse: {p}: {}", r.cmd.text));
        }
        history.push(json!({"cmd": r.cmd.describe(), "session": if r.restricted { RESTRICTED } else { "system" }, "intended": format!("{}:{}", r.when, r.class),
            "outcome": if out.committed() { format!("{}@{}", out.receipt_status, out.space_seq.unwrap_or(0)) } else if out.succeeded { "dry run".to_string() } else { format!("refused:{}", out.error_code) }}));
        if out.committed() {
            // the state offered no sure refusal after all: an ordinary commit (possibly a real
            // purge); the case ends here, nothing is judged
            st.count(&format!("statement_meant_to_be_refused_committed:{}", r.class));
            ended_early = true;
            break;
        }
        let since_kind: &'static str = match (r.when, out.succeeded) {
            ("dry_run", true) => "dry_run_not_committed",
            ("planning", _) => "refused_while_planned",
            ("commit", _) => "refused_at_commit",
            ("session", _) => "refused_for_the_session",
            _ => "refused_dry_run",
        };
        st.count("statements_not_committed");
        st.count(&format!("not_committed:{since_kind}"));
        st.count(&format!("not_committed_class:{}:{}", r.class, if out.succeeded { "dry_run" } else { out.error_code.as_str() }));
        for k in &r.body_kinds {
            st.count(&format!("not_committed_with_clause:{k}"));
        }
        // a PURGE that passed planning (was staged) in a statement that was then refused: by a
        // later clause, or by the validation of the write set
        let late_code = matches!(out.error_code.as_str(), "IdentityConflict" | "StructuralReferenceInvalid");
        if r.purges > 0 && r.when == "commit" && !out.succeeded && !matches!(out.error_code.as_str(), "PurgeDenied" | "LegalHoldConflict" | "NotAuthorized") {
            st.count("refused_at_commit_with_a_planned_purge");
            if late_code {
                st.count("refused_at_commit_with_a_planned_purge:by_the_write_set_validation");
            }
        }
        if r.purges > 0 && r.when == "planning" && r.purge_first && !out.succeeded {
            st.count("refused_while_planned_with_a_purge_clause_in_front");
        }
        if r.purges > 0 && r.when == "dry_run" && out.succeeded {
            st.count("dry_run_with_a_purge_clause");
        }
        if r.purges > 0 && r.when == "session" {
            st.count("refused_for_the_session_with_a_purge_clause");
        }
        // --- replay: every recorded by-id answer about an element the statement named, at every
        // coordinate; half of everything recorded at the latest coordinate and at a seeded one
        let hay: String = std::iter::once(r.cmd.text.clone()).chain(r.cmd.params.values().filter_map(|v| v.as_str().map(|s| s.to_string()))).collect::<Vec<_>>().join("\n");
        let mentioned = |id: &str| hay.contains(&jstr(id)) || r.cmd.params.values().any(|v| v.as_str() == Some(id));
        let since: BTreeSet<&'static str> = [since_kind].into_iter().collect();
        let hist2 = history.clone();
        let cx = move || json!({"case": case, "history": hist2});
        let n = recorded.len();
        let wide: BTreeSet<usize> = [n - 1, rng.usize(n)].into_iter().collect();
        let mut changed_the_past = false;
        for (ri, rec) in recorded.iter().enumerate() {
            let mut only: BTreeSet<usize> = rec.qs.iter().enumerate().filter(|(_, (qu, _))| qu.about.as_deref().map(&mentioned).unwrap_or(false)).map(|(i, _)| i).collect();
            if r.cmd.text.contains("?victim WHERE") {
                // the selector form names its targets by type
                only.extend(rec.qs.iter().enumerate().filter(|(_, (qu, a))| qu.about.is_some() && a.as_ref().map(|v| canon(v).contains("Insight")).unwrap_or(false)).map(|(i, _)| i));
            }
            if wide.contains(&ri) {
                only.extend((0..rec.qs.len()).filter(|_| rng.bool()));
            }
            if only.is_empty() {
                continue;
            }
            st.count("coordinates_replayed_after_a_statement_that_did_not_commit");
            let sig = format!("C18/not_a_purge/{since_kind}/changed_what_a_past_coordinate_answers");
            let diff = replay_one(&nexus, rec, "SEQ_after_a_statement_that_did_not_commit", &format!("AS OF SEQ {}", rec.seq), &since, Some(&only), None, Some(&sig), st, &cx).await?;
            changed_the_past |= !diff.is_empty();
        }
        if changed_the_past {
            // reported; whatever this history answers from here on follows from it
            st.count("cases_ended_after_a_reported_change_of_the_past");
            return Ok(());
        }
    }
    if ended_early {
        return Ok(());
    }
    // --- the end: every coordinate, every recorded query, every form
    let sc = scan(&nexus).await?;
    let hist2 = history.clone();
    let cx = move || json!({"case": case, "history": hist2});
    final_replay(&nexus, &recorded, &sc, &None, rng, st, &cx).await?;
    check_payloads(&sc, st, &cx);
    st.sample(|| json!({"monitor": "refused statements", "case": case, "commits": recorded.len(), "last_statements": history.iter().rev().take(3).collect::<Vec<_>>()}));

    // --- the one statement that may remove the past: it removes the past of what it erased
    let all = world_all(&sc);
    let rows = elements(&sc);
    let victims: Vec<&El> = all.concepts.iter().chain(&all.props).chain(&all.assertions).chain(&all.evidence).chain(&all.activities)
        .filter(|e| matches!(e.state.as_str(), "active" | "archived" | "tombstoned") && !rows.get(&e.id).map(|r| legal_hold(r)).unwrap_or(false))
        .collect();
    if victims.is_empty() {
        return Ok(());
    }
    let victim = (*rng.pick(&victims)).clone();
    let policy = *rng.pick(&["tombstone_reference", "tombstone_reference", "authorized_cascade"]);
    let purge = Cmd::new(format!("PURGE {} REFERENCE POLICY {} CONFIRM \"PURGE\"", jstr(&victim.id), jstr(policy)));
    let out = exec(&Via::System(&nexus), &purge).await?;
    history.push(json!({"cmd": purge.describe(), "outcome": if out.committed() { format!("{}@{}", out.receipt_status, out.space_seq.unwrap_or(0)) } else { format!("refused:{}", out.error_code) }}));
    if !out.committed() {
        st.count(&format!("final_purge_refused:{}", out.error_code));
        return Ok(());
    }
    st.count("purges_committed");
    st.count(&format!("purges_committed:{policy}"));
    let after = scan(&nexus).await?;
    let now = elements(&after);
    let erased: BTreeSet<String> = now.iter().filter(|(id, r)| r["state"] == "purged" && rows.get(*id).map(|b| b["state"] != "purged").unwrap_or(true)).map(|(id, _)| id.clone()).collect();
    st.add("elements_erased_by_committed_purges", erased.len() as u64);
    let hist2 = history.clone();
    let cx = move || json!({"case": case, "history": hist2, "erased": erased_list(&now)});
    let since: BTreeSet<&'static str> = ["purge_of_another_element"].into_iter().collect();
    for rec in &recorded {
        // answers about another element that do not mention an erased one anywhere
        let only: BTreeSet<usize> = rec.qs.iter().enumerate()
            .filter(|(_, (qu, a))| {
                let text = match a { Ok(v) => canon(v), Err(e) => e.clone() };
                qu.about.as_ref().map(|id| !erased.contains(id)).unwrap_or(false) && !erased.iter().any(|x| text.contains(&jstr(x)))
            })
            .map(|(i, _)| i)
            .collect();
        replay_one(&nexus, rec, "SEQ_after_the_purge_of_another_element", &format!("AS OF SEQ {}", rec.seq), &since, Some(&only), None,
            Some("C18/purge_scope/a_committed_purge_changed_the_past_of_an_element_it_did_not_erase"), st, &cx).await?;
        // what the erased element's own past answers now is measured, not judged
        for (qu, live) in rec.qs.iter().filter(|(qu, _)| qu.about.as_ref().map(|id| erased.contains(id)).unwrap_or(false)) {
            let got = ask(&nexus, qu, &format!("AS OF SEQ {}", rec.seq)).await?;
            let same = compare(live, &got, qu) == Cmp::Equal;
            let empty = matches!(&got, Ok(Value::Array(a)) if a.is_empty());
            st.count(if empty { "past_of_an_erased_element_after_its_purge:no_rows" } else if same { "past_of_an_erased_element_after_its_purge:unchanged" } else { "past_of_an_erased_element_after_its_purge:other" });
        }
    }
    Ok(())
}

fn erased_list(now: &BTreeMap<String, &Value>) -> Vec<String> {
    now.iter().filter(|(_, r)| r["state"] == "purged").map(|(id, _)| id.clone()).collect()
}

fn main() {
    let mut run = Run::from_args(
        "C18",
        "exploration",
        "seeded histories of committed KML statements (create / update / archive / tombstone / \
         retract / supersede / merge / retention / transition / correction, rival claims on a \
         `reads` slot, shelving of connected elements; half of them closed and reopened once) \
         with schema activations between three environments: core only, bundled \
         profile + test package 1.0.0 (`reads` an ordinary predicate), bundled profile + test \
         package 2.0.0 (`reads` functional); a history is non-trivial when at least half of the \
         planned commits landed and >= 6 mutation kinds occurred (distinct by statement texts). \
         Section late_env: such histories in Spaces (default / a second one) whose first activation \
         (activate_schema / ensure_schema / install_and_activate) follows 1-3 commits of raw \
         Evidence / Activities under Core alone. Section refused: short histories followed by \
         generated statements that do not commit (planning-time, commit-time and session refusals, \
         dry runs) carrying PURGE clauses, then one committed PURGE",
    );
    run.assume("DESCRIBE SCHEMA ENVIRONMENT AS OF adds the member snapshot_seq (the coordinate it was asked for); it is dropped before comparing. SNAPSHOT / DESCRIBE SNAPSHOT are compared whole (the live answer at s names s itself)");
    run.assume("an answer is the operation's result payload (plus next_cursor for the paged ORDER BY queries), or the error code it was refused with (an answer that was an error when its coordinate was the present must replay as the same error code); the rest of the response envelope (context.schema_environment_version, space_id, receipt) names the read coordinate/environment and is excluded; nothing inside a payload is excluded");
    run.assume("the row sequence is compared only for queries with ORDER BY (their sort keys are unique per row); the column order inside a row and every list inside an element view are always compared as they are. For the BELIEF families only, the order of the lists inside a projection object (ledger id lists, slot candidates) and - with the aggregates - the last digits of float sums follow the engine's candidate enumeration order; such differences are counted (replay_differs_in_*, reordered_list_tolerated:*), not asserted. Scalar members of a projection (status, scores to 12 digits, `leading`) are asserted");
    run.assume("BELIEF / BELIEF SLOT / FOR TIME queries pin world time with FOR TIME so that `now` never enters an answer");
    run.assume("AS OF TIME is replayed only for commits whose timestamp differs from every other journal row of the Space (equal timestamps are counted and skipped); SEARCH ... AS OF is documented as unsupported and is not in the battery");
    run.assume("PURGE is the only statement allowed to change the past. Sections hist / late_env never generate it. Section refused generates it inside statements that do not commit (refused while planned, refused by the commit-time validation of the write set, refused for the session's authority, dry runs): none of them is a purge, every recorded answer must replay unchanged. One PURGE per case is committed at the very end: afterwards only by-id answers about OTHER elements that mention no erased element are asserted; what the erased element's own past answers is counted");
    run.assume("an activation in a Space that has committed writes is a point of its history (store/history.rs: `An activation is a transaction like any other`; tests/history.rs: a later activation has a real history coordinate): the Space sequence advances and a journal row carries it. The first activation of a Space WITHOUT history takes no coordinate (documented bootstrap) and is not judged");
    run.assume("all reads run as the system Principal (current authorization applies to historical reads by specification)");
    let t = run.tier;
    let standard = Shape::standard();
    if run.wants("hist") {
        run.parallel("hist", t.pick(24, 1200), t.pick(0.9, 0.7), |c, rng, st| hist_case(c, rng, st, t.pick(16, 24), t.pick(0, 3), &standard));
    }
    // Spaces whose first activation comes after committed writes: host entry point and Space by
    // case number, so that every combination occurs in every run
    if run.wants("late_env") {
        run.parallel("late_env", t.pick(18, 240), t.pick(0.5, 0.5), |c, rng, st| {
            let shape = Shape {
                section: "late_env",
                space: if (c / 3) % 2 == 1 { SECOND_SPACE.to_string() } else { DEFAULT_SPACE.to_string() },
                late: true,
                entry: ["activate_schema", "ensure_schema", "install_and_activate"][(c % 3) as usize],
            };
            hist_case(c, rng, st, t.pick(7, 12), t.pick(0, 2), &shape)
        });
    }
    if run.wants("refused") {
        run.parallel("refused", t.pick(24, 400), t.pick(0.8, 0.8), |c, rng, st| refused_case(c, rng, st, t.pick(5, 8), t.pick(12, 24)));
    }
    drain_reports(&mut run);
    run.floor("history_commits", 120);
    run.floor("history_reopens", 4);
    run.floor("battery_recorded", 6000);
    run.floor("replayed:SEQ", 10000);
    run.floor("replayed:TX", 1000);
    run.floor("replayed:TIME", 300);
    run.floor("replayed:TOKEN", 300);
    run.floor("coordinates_replayed_after_a_later_commit", 120);
    run.floor("coordinates_replayed_at_the_end", 120);
    run.floor("oracle_payload_immutable", 500);
    run.floor("payload_checked_over_several_versions", 50);
    for f in ["element", "tuple", "structural", "path", "not_optional_union", "filter", "aggregate", "order_limit", "belief", "belief_slot", "for_time", "meta_as_of"] {
        run.floor(&format!("replayed_family:{f}"), 200);
    }
    for k in ["create_concept", "create_proposition", "create_assertion", "update_concept", "update_proposition", "archive", "tombstone", "retract", "supersede", "merge",
              "set_retention", "transition", "correct_evidence", "schema_activation_core_only", "schema_activation_profile",
              "schema_activation_reads_plain", "schema_activation_reads_functional", "reads_claims_functional", "reads_claims_plain",
              "shelve_connected_element"] {
        run.floor(&format!("replayed_after:{k}"), 150);
    }
    run.floor("recorded_reads_beliefs_opposed_by_a_rival_value:Functional", 20);
    run.floor("recorded_reads_beliefs:Plain", 20);
    run.floor_set("replayed_query_x_form", 100);
    // late_env: Spaces whose first activation is a point in the middle of their history
    run.floor("first_activations_after_committed_writes", 6);
    run.floor("first_activation_after_committed_writes_in:default_space", 3);
    run.floor("first_activation_after_committed_writes_in:second_space", 3);
    for e in ["activate_schema", "ensure_schema", "install_and_activate"] {
        run.floor(&format!("first_activation_after_committed_writes_via:{e}"), 2);
    }
    run.floor("coordinates_recorded_under_schema_environment_0", 12);
    run.floor("replayed_after:first_activation_after_committed_writes", 1500);
    run.floor("replay_equal_error_answers:SchemaSymbolNotFound", 800);
    run.floor("oracle_activation_is_a_point_of_the_history", 20);
    // refused: statements that do not commit are not purges; a committed purge erases its targets only
    run.floor("statements_not_committed", 90);
    run.floor("not_committed:refused_while_planned", 25);
    run.floor("not_committed:refused_at_commit", 30);
    run.floor("not_committed:refused_for_the_session", 7);
    run.floor("not_committed:dry_run_not_committed", 12);
    run.floor("refused_at_commit_with_a_planned_purge:by_the_write_set_validation", 25);
    run.floor("refused_while_planned_with_a_purge_clause_in_front", 12);
    run.floor("refused_for_the_session_with_a_purge_clause", 7);
    run.floor("dry_run_with_a_purge_clause", 12);
    run.floor("not_committed_class:key_held_by_another_concept:IdentityConflict", 10);
    run.floor("not_committed_class:one_key_twice_in_the_block:IdentityConflict", 10);
    run.floor("not_committed_class:reference_into_another_space:StructuralReferenceInvalid", 6);
    run.floor("not_committed_class:legal_hold:LegalHoldConflict", 4);
    run.floor("not_committed_class:purge_denied:PurgeDenied", 2);
    for (k, n) in [("merge", 25), ("archive", 8), ("tombstone", 8), ("retract", 12), ("update_concept", 35), ("set_retention", 20), ("create_concept", 100)] {
        run.floor(&format!("not_committed_with_clause:{k}"), n);
    }
    run.floor("replayed:SEQ_after_a_statement_that_did_not_commit", 5000);
    run.floor("replayed_family:by_id", 4000);
    run.floor("purges_committed", 8);
    run.floor("replayed:SEQ_after_the_purge_of_another_element", 500);
    run.finish();
}
